//! E3: coverage-guided target with the semantic oracles in-process.
//! bytes -> (extension subset, converter, UTF-8 text); VERIF_ONLY=C03|C04|C05|C06|C07|C14 arms one oracle.
#![no_main]

use libfuzzer_sys::fuzz_target;
use veriflib::common::Stats;
use veriflib::inv;
use veriflib::pipeline::N_EXT;

fn only() -> Option<String> {
    std::env::var("VERIF_ONLY").ok()
}

fuzz_target!(|data: &[u8]| {
    if data.len() < 3 {
        return;
    }
    let ext = (u16::from_le_bytes([data[0], data[1]]) as usize) % N_EXT;
    let conv = data[2] & 1;
    let Ok(text) = std::str::from_utf8(&data[3..]) else { return };
    let mut st = Stats::default();
    let only = only();
    let armed = |id: &str| only.as_deref().map_or(true, |o| o == id);
    let mut report = |id: &str, r: veriflib::common::Verdict| {
        if let Err(v) = r {
            eprintln!("VERIF-VIOLATION {id} {} :: {}", v.sig, v.msg);
            std::process::abort();
        }
    };
    if armed("C03") {
        report("C03", inv::c03_pipeline(text, ext, conv, &mut st));
    }
    if armed("C04") {
        report("C04", inv::c04_spans(text, ext, conv, &mut st));
    }
    if armed("C05") {
        report("C05", inv::c05_coverage(text, ext, &mut st));
    }
    if armed("C06") {
        report("C06", inv::c06_model(text, ext, conv, &mut st));
    }
    if armed("C07") {
        report("C07", inv::c07_structure(text, ext, conv, &mut st));
    }
    if armed("C14") {
        report("C14", inv::c14_meta(text, ext, conv, &mut st));
    }
});
