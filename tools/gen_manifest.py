#!/usr/bin/env python3
"""Generates /verif/MANIFEST.json from the table below (single source of truth for the registered checks)."""
import json, subprocess, os
V = os.path.dirname(os.path.dirname(os.path.abspath(__file__)))
ALL = [f"C{i:02d}" for i in range(1, 20)]
CHECKS = {
 "C01": dict(tech="property-based testing (proptest): structure-aware recipe generator + spelling tape, printed and parsed, compared against a reference resolver (round-trip / model oracle)",
   text="Abstract recipes (sections, steps, text paragraphs, ingredients/cookware/timers with all value kinds, and at level Ext modifiers, aliases, notes, references, intermediate references, mode switches, inline quantities, YAML front matter) are generated, printed with a random spelling (spacing, soft wraps, comments, escapes, blank/comment lines, section styles, `>>` vs front matter, CRLF) and parsed by the canonical resp. extended parser; every public field of the result is compared with the image computed by an independent reference resolver. Bounded random search: sizes <= 10 blocks x 7 items, case counts fixed per tier.",
   note="Trusted: the harness' reference resolver (written from extensions.md and the statement), its text normalisation (blank runs collapsed, step ends trimmed) and serde_yaml as the YAML reader of the expected front matter values.", ref="DESIGN.md section 3 (C01)"),
 "C03": dict(tech="bounded exhaustive enumeration over a token alphabet + property-based testing (token soup, line documents, generated recipes and their mutations) with a catch_unwind/watchdog totality oracle; libFuzzer campaign in the thorough tier",
   text="Every sequence of <= 3 (quick) / 4 (thorough) tokens of a 62-token alphabet (markers, comment delimiters, blanks incl. NBSP / U+3000 / BOM, NUL, U+2212, multi-byte characters) and <= 5/6 tokens of a 17-token component alphabet, plus random soups (with arbitrary characters and exotic blanks), line documents (incl. 6-13 `>>` entries), generated recipes (three profiles: default, section-heavy, metadata-heavy) and their mutations (token edits, arbitrary characters, exotic blanks, block comments, repeated pieces) are pushed through every public consumer (events, metadata iterator, AST, parse, metadata-only parse, report rendering, accessors, scaling, conversion, grouping, listing, categorising, serialising) also through parse_with_options / parse_metadata_with_options with a recipe-reference checker and a metadata validator, under debug assertions and overflow checks; a panic or a missed 20 s deadline is a violation. A large-inputs part repeats 65 units 3 000 / 12 000 times and builds single tokens and fields of 70 000 units, run in child processes on 2 MiB stacks so that a stack overflow (process abort) is observed. A converters part builds a converter per case from units.toml plus a generated layer with extreme fraction settings (NaN / infinite / negative accuracies, denominators 0..255, whole limits 0..2^32-1) and units with ratios from 5e-324 to 1.8e308, and runs parsing, scaling, grouping, listing, conversion, fitting and approximation on it. Every check that uses these input families (C03-C07, C14) also runs a fixed catalogue of documents that need several rare ingredients at once, under four configurations.",
   note="Trusted: the 20 s deadline as a proxy for non-termination; scaling factors are finite and positive.", ref="DESIGN.md section 3 (C03)"),
 "C04": dict(tech="bounded exhaustive enumeration + property-based testing with span invariants (token tiling via the verif hook, bounds, char boundaries, fragment fidelity, ordering) and report rendering as oracle",
   text="Same input families as C03 (multi-byte characters adjacent to every marker by construction). For each input and configuration: tokens tile the input, every event / fragment / component part / diagnostic label span is in bounds, ordered and on char boundaries, fragment text equals the input slice, content events are ordered and disjoint, every report renders (also the reports that only parse options produce), and the derived views of every Text (text, trimmed forms, is_text_empty, located_*) agree with its fragments. The large-inputs part checks spans after tokens longer than 64 KiB.",
   note="Trusted: the hook exposing the token stream (guarded, additive). Containment of component parts is only required when the event stream has no error event.", ref="DESIGN.md section 3 (C04)"),
 "C05": dict(tech="bounded exhaustive enumeration + property-based testing with a conservation oracle (independent comment scanner vs union of event spans)",
   text="For every explored input whose event stream has no error, each letter or digit outside comments (as delimited by an independent scanner) must lie inside the span of an emitted content event (also after very long tokens: large-inputs part).",
   note="Trusted: the harness' comment scanner (mirrors the documented delimiters).", ref="DESIGN.md section 3 (C05)"),
 "C06": dict(tech="bounded exhaustive enumeration + property-based testing (soups, generated recipes incl. references / modes / intermediate references, and their mutations) with a referential-consistency oracle over the public model",
   text="Every output (valid or not) of the explored inputs is walked through its public fields: index ranges and order, reference targets and back-links (exactly once, reciprocal), step / section targets, step numbering, no empty section / step / text item, timers have a name or quantity, and for valid results REF modifier <=> reference and names equal up to case.",
   note="`text item` is read as Item::Text; an empty Content::Text paragraph is counted, not flagged.", ref="DESIGN.md section 3 (C06)"),
 "C14": dict(tech="bounded exhaustive enumeration + property-based testing with a differential oracle (metadata-only parse vs full parse)",
   text="For every explored input and configuration where both parses produce output, the ordered metadata entries of parse_metadata() equal those of parse(), and the same holds for parse_metadata_with_options() vs parse_with_options() under a pure metadata validator that excludes some keys, skips the standard checks of others and warns about others.",
   note="Both sides are the implementation under test; the relation between them is the oracle.", ref="DESIGN.md section 3 (C14)"),
 "C12": dict(tech="property-based testing (proptest) + exhaustive grid enumeration against an exact-rational oracle",
   text="Every value k/480 (quick) or k/3840 (thorough) in (0,4]/(0,8] is enumerated against every max_den 0..=64, six accuracies and five whole-part limits, plus random values (grid, uniform, near-integers, near 2^32, arbitrary f64); each result is checked against the statement's clauses with exact rational arithmetic for the printed form. The callers (fit, convert to a system or unit, try_fraction on numbers and ranges in every bundled unit) are checked against the limits units.toml gives for the unit of the result, computed from the files by the harness, for units.toml alone and for units.toml plus a second fractions layer with explicit limits at every level (including max_denominator 1 and 0 for single units), plus a strict layer whose general levels sit under bare toggles, and a standalone units file whose time and mass units have no system; the expected settings are read from the TOML text by the harness. A continuous domain cannot be exhausted, so this is bounded search, not proof.",
   note="Trusted: f64 arithmetic of the harness; documented preconditions of new_approx (accuracy in [0,1], max_den <= 64).", ref="DESIGN.md section 4 (C12)"),
}
def main():
    extra = {}
    p = os.path.join(V, "tools", "manifest_extra.json")
    if os.path.exists(p):
        extra = json.load(open(p))
    CHECKS.update(extra)
    commits = subprocess.run(["git","-C","/repo","log","--format=%h %s"],capture_output=True,text=True).stdout.splitlines()
    hook_commits = [c.split()[0] for c in commits if c.split(' ',1)[1].startswith("verif hook")]
    checks = []
    for pid in ALL:
        if pid not in CHECKS: continue
        c = CHECKS[pid]
        checks.append({
            "property_id": pid,
            "quick_cmd": f"./check {pid} quick",
            "thorough_cmd": f"./check {pid} thorough",
            "evidence_file": f"/verif/evidence/{pid}.json",
            "replay_cmd_template": f"./check {pid} --replay {{path}}",
            "engine": "harness",
            "technique": c["tech"],
            "level_claimed": {"category": "exploration", "text": c["text"], "design_ref": c["ref"]},
            "level_note": c["note"],
        })
    na = [{"property_id": pid, "reason": "check under construction (not yet registered)"} for pid in ALL if pid not in CHECKS]
    m = {
        "version": 1,
        "setup_cmd": "./check build",
        "hooks": {
            "guard": "--cfg cooklang_cooklang_rs_verif",
            "enable": "RUSTFLAGS=\"--cfg cooklang_cooklang_rs_verif\" cargo build, done by ./check for the harness workspace generated under /verif/build/ws (depends on /repo by path, so every run rebuilds from the working tree)",
            "baseline_off_cmd": "cd /repo && (cargo nextest run --workspace --no-fail-fast --offline || cargo test --workspace --no-fail-fast --offline)",
            "source_commits": hook_commits,
            "add_only": True,
        },
        "engines": [
            {"name": "harness", "path": "/verif/harness", "serves_properties": [c["property_id"] for c in checks],
             "kind_free_text": "Rust binary `verif` (one sub-command per property): proptest TestRunner driven from main() with derived seeds on 16 worker threads, bounded exhaustive enumerations, explicit oracles, hang watchdog, replay of saved cases"},
        ],
        "checks": checks,
        "not_applicable": na,
        "notes": "Exit codes of every command: 0 held, 1 with a `VIOLATION property=<id> replay=<path>` line, 2 infrastructure problem / inconclusive. Known findings: /verif/known_findings.json.",
    }
    if not na: del m["not_applicable"]
    json.dump(m, open(os.path.join(V, "MANIFEST.json"), "w"), indent=1)
    print("registered:", [c["property_id"] for c in checks])
main()
