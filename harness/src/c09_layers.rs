//! C09, converters built from layers: the shipped units file plus a generated second layer that
//! redefines SI base units through `[extend.units]`, sets the default system and declares units
//! that belong to no system. The standard definitions are then: an SI-prefixed unit is its base
//! times the prefix factor, whatever layer the base's size came from; every other unit is what its
//! layer declares. Fitting a unit without a system uses the converter's default system.

use cooklang::convert::{ConvertTo, ConvertUnit, ConvertValue, ConverterBuilder, PhysicalQuantity, System, UnitsFile};
use cooklang::quantity::{Number, Quantity, ScaledQuantity, Value};
use cooklang::Converter;
use proptest::prelude::*;
use serde::{Deserialize, Serialize};
use serde_json::json;

use crate::common::*;
use crate::pipeline::BUNDLED;
use crate::{vbail, vensure};

#[derive(Debug, Clone, Serialize, Deserialize)]
pub struct LayerCase {
    /// default system named by the layer: None = not named (stays metric)
    pub default_imperial: Option<bool>,
    /// new size (index into SIZES) of the base units gram, liter, meter; None = untouched
    pub resize: [Option<u8>; 3],
    /// a third layer resizes them again (the later layer wins)
    #[serde(default)]
    pub resize_again: [Option<u8>; 3],
    /// the extend entry addresses the base by 0 its symbol, 1 its first name
    pub by_name: bool,
    pub unit_a: u8,
    pub unit_b: u8,
    pub start_bits: u64,
    pub end_bits: Option<u64>,
    /// 0 convert to unit b, 1 Converter::convert(SameSystem), 2 fit, 3 convert(Metric), 4 convert(Imperial)
    pub op: u8,
}

const SIZES: [f64; 4] = [0.001, 0.5, 2.0, 1000.0];
const BASES: [(&str, &str); 3] = [("g", "gram"), ("l", "liter"), ("m", "meter")];
const PREFIX: [(&str, &str, f64); 6] = [("k", "kilo", 1e3), ("h", "hecto", 1e2), ("da", "deca", 1e1), ("d", "deci", 1e-1), ("c", "centi", 1e-2), ("m", "milli", 1e-3)];
/// units without a system declared by the layer: (quantity, name, symbol, size)
const UNSPECIFIED: [(&str, &str, &str, f64); 3] = [("mass", "momme", "mom", 3.75), ("volume", "go", "gō", 0.1804), ("length", "shaku", "sk", 0.303)];
/// units declared with names only, no symbol (legal: pinch, dash, stick ...)
const NAMED_ONLY: [(&str, &str, f64); 4] = [("volume", "pinch", 0.0003), ("volume", "dash", 0.0006), ("mass", "stick", 113.0), ("mass", "knob", 15.0)];

struct Entry {
    key: String,
    quantity: PhysicalQuantity,
    /// expected size in the quantity's base unit of the *bundled* file, and expected system
    size: f64,
    system: Option<System>,
    /// offset to the absolute zero, in the unit itself (temperatures)
    offset: f64,
}

fn layer_toml(c: &LayerCase) -> String {
    let mut s = String::new();
    if let Some(imp) = c.default_imperial {
        s.push_str(&format!("default_system = \"{}\"\n", if imp { "imperial" } else { "metric" }));
    }
    if c.resize.iter().any(|r| r.is_some()) {
        s.push_str("[extend.units]\n");
        for (i, r) in c.resize.iter().enumerate() {
            if let Some(r) = r {
                let key = if c.by_name { BASES[i].1 } else { BASES[i].0 };
                s.push_str(&format!("{key} = {{ ratio = {:?} }}\n", SIZES[*r as usize % SIZES.len()]));
            }
        }
    }
    for (q, name, sym, size) in UNSPECIFIED {
        let named: Vec<String> = NAMED_ONLY.iter().filter(|(nq, _, _)| *nq == q).map(|(_, n, r)| format!("{{ names = [\"{n}\"], symbols = [], ratio = {r:?} }}")).collect();
        s.push_str(&format!("[[quantity]]\nquantity = \"{q}\"\n[quantity.units]\nunspecified = [ {{ names = [\"{name}\"], symbols = [\"{sym}\"], ratio = {size:?} }}, {} ]\n", named.join(", ")));
    }
    // fractions for temperatures too (units.toml switches them off): fitting then goes through the fraction path
    s.push_str("[fractions.quantity]\ntemperature = true\n");
    s.push_str("[[quantity]]\nquantity = \"temperature\"\n[quantity.units]\nmetric = [ { names = [\"degree\"], symbols = [\"deg\"], ratio = 1, difference = 273.15, expand_si = true }, { names = [\"kelvin\"], symbols = [\"K\"], ratio = 1 } ]\n");
    // the layer may name other best units for volume: the later designation wins
    if c.by_name {
        s.push_str("[[quantity]]\nquantity = \"volume\"\nbest = { metric = [\"dl\", \"l\"], imperial = [\"fl oz\", \"gal\"] }\n");
    }
    s
}

/// a further layer holding only an extend table
fn second_layer_toml(c: &LayerCase) -> Option<String> {
    if c.resize_again.iter().all(|r| r.is_none()) {
        return None;
    }
    // the temperature units only get aliases: their size and offset stay what they were
    let mut s = String::from("[extend.units]\nC = { aliases = [\"centigrade\"] }\nfahrenheit = { names = [\"degF\"] }\ndeg = { aliases = [\"dgr\"] }\n");
    for (i, r) in c.resize_again.iter().enumerate() {
        if let Some(r) = r {
            let key = if c.by_name { BASES[i].0 } else { BASES[i].1 };
            s.push_str(&format!("{key} = {{ ratio = {:?} }}\n", SIZES[*r as usize % SIZES.len()]));
        }
    }
    Some(s)
}

fn build(c: &LayerCase) -> Result<Converter, String> {
    let text = std::fs::read_to_string(repo_dir().join("units.toml")).map_err(|e| format!("cannot read units.toml: {e}"))?;
    let base: UnitsFile = toml::from_str(&text).map_err(|e| format!("units.toml: {e}"))?;
    let layer: UnitsFile = toml::from_str(&layer_toml(c)).map_err(|e| format!("generated layer: {e}\n{}", layer_toml(c)))?;
    let mut b = ConverterBuilder::new().with_units_file(base).and_then(|b| b.with_units_file(layer)).map_err(|e| format!("the builder rejects the generated layer: {e}\n{}", layer_toml(c)))?;
    if let Some(t) = second_layer_toml(c) {
        let l2: UnitsFile = toml::from_str(&t).map_err(|e| format!("generated second layer: {e}\n{t}"))?;
        b = b.with_units_file(l2).map_err(|e| format!("the builder rejects the second layer: {e}\n{t}"))?;
    }
    b.finish().map_err(|e| format!("the builder rejects the generated layers: {e}\n{}", layer_toml(c)))
}

/// the units the cases draw from, with their expected definitions under the layer
fn entries(c: &LayerCase) -> Vec<Entry> {
    use PhysicalQuantity::*;
    let qs = [Mass, Volume, Length];
    let mut out = vec![];
    for (i, (sym, name)) in BASES.iter().enumerate() {
        let base = c.resize_again[i].or(c.resize[i]).map_or(1.0, |r| SIZES[r as usize % SIZES.len()]);
        out.push(Entry { key: sym.to_string(), quantity: qs[i], size: base, system: Some(System::Metric), offset: 0.0 });
        out.push(Entry { key: format!("{name}s"), quantity: qs[i], size: base, system: Some(System::Metric), offset: 0.0 });
        for (ps, pn, f) in PREFIX {
            out.push(Entry { key: format!("{ps}{sym}"), quantity: qs[i], size: base * f, system: Some(System::Metric), offset: 0.0 });
            out.push(Entry { key: format!("{pn}{name}"), quantity: qs[i], size: base * f, system: Some(System::Metric), offset: 0.0 });
        }
    }
    // imperial units keep the shipped definitions (checked against the real-world ones elsewhere)
    // a temperature unit with an offset that is expanded with SI prefixes: 1000 mdeg = 1 deg, whatever the offset
    out.push(Entry { key: "deg".into(), quantity: Temperature, size: 1.0, system: Some(System::Metric), offset: 273.15 });
    out.push(Entry { key: "degree".into(), quantity: Temperature, size: 1.0, system: Some(System::Metric), offset: 273.15 });
    for (ps, pn, f) in PREFIX {
        out.push(Entry { key: format!("{ps}deg"), quantity: Temperature, size: f, system: Some(System::Metric), offset: 273.15 / f });
        out.push(Entry { key: format!("{pn}degree"), quantity: Temperature, size: f, system: Some(System::Metric), offset: 273.15 / f });
    }
    // a temperature unit without offset next to the ones with: 0 C = 273.15 K
    out.push(Entry { key: "K".into(), quantity: Temperature, size: 1.0, system: Some(System::Metric), offset: 0.0 });
    out.push(Entry { key: "kelvin".into(), quantity: Temperature, size: 1.0, system: Some(System::Metric), offset: 0.0 });
    for k in ["oz", "lb", "cup", "tsp", "tbsp", "gal", "in", "ft", "C", "F"] {
        let u = BUNDLED.find_unit(k).expect("bundled imperial unit");
        out.push(Entry { key: k.to_string(), quantity: u.physical_quantity, size: u.ratio, system: u.system, offset: u.difference });
    }
    for (q, name, size) in NAMED_ONLY {
        out.push(Entry { key: name.to_string(), quantity: if q == "volume" { Volume } else { Mass }, size, system: None, offset: 0.0 });
    }
    for (i, (_, name, sym, size)) in UNSPECIFIED.iter().enumerate() {
        out.push(Entry { key: sym.to_string(), quantity: qs[i], size: *size, system: None, offset: 0.0 });
        out.push(Entry { key: name.to_string(), quantity: qs[i], size: *size, system: None, offset: 0.0 });
    }
    out
}

fn find<'a>(es: &'a [Entry], conv: &Converter, unit_key: &str) -> Option<&'a Entry> {
    let u = conv.find_unit(unit_key)?;
    es.iter().find(|e| conv.find_unit(&e.key).is_some_and(|x| *x == *u))
}

pub fn check(c: &LayerCase, st: &mut Stats) -> Verdict {
    let conv = build(c).map_err(|e| Violation::new("c09.layer-rejected", e))?;
    let es = entries(c);
    let a = &es[c.unit_a as usize % es.len()];
    // b: a unit of the same quantity
    let same: Vec<&Entry> = es.iter().filter(|e| e.quantity == a.quantity).collect();
    let b = same[c.unit_b as usize % same.len()];
    let (s, e) = (f64::from_bits(c.start_bits), c.end_bits.map(f64::from_bits));
    let ctx = || format!("layer\n{}{}", layer_toml(c), second_layer_toml(c).map(|t| format!("\nnext layer\n{t}")).unwrap_or_default());
    st.nontrivial(&serde_json::to_string(c).unwrap());
    st.class_if(c.resize.iter().any(|r| r.is_some()), "base unit resized by an extend entry");
    st.class_if((0..3).any(|i| c.resize[i].is_some() && c.resize_again[i].is_some()), "base unit resized by two layers");
    st.class_if(a.system.is_none() && NAMED_ONLY.iter().any(|(_, n, _)| *n == a.key), "unit without a symbol");
    st.class_if(c.default_imperial == Some(true), "default system imperial");
    st.class_if(a.system.is_none(), "unit without a system");
    // the unit table itself: every key resolves, prefixed units follow their base
    for en in &es {
        let Some(u) = conv.find_unit(&en.key) else {
            vbail!("c09.layer-unit-missing", "`{}` does not resolve in the layered converter; {}", en.key, ctx());
        };
        vensure!(
            approx_eq(u.ratio, en.size, 1e-9, 0.0) && approx_eq(u.difference, en.offset, 1e-9, 0.0) && u.system == en.system && u.physical_quantity == en.quantity,
            "c09.layer-definition",
            "`{}` is defined as {} x base, offset {} ({:?}, {}) but the layers imply {} x base, offset {} ({:?}); {}",
            en.key, u.ratio, u.difference, u.system, u.physical_quantity, en.size, en.offset, en.system, ctx()
        );
    }
    if c.by_name {
        for (sys, want) in [(System::Metric, ["dl", "l"]), (System::Imperial, ["fl oz", "gal"])] {
            let got: Vec<String> = conv.best_units(PhysicalQuantity::Volume, Some(sys)).iter().map(|u| u.symbol().to_string()).collect();
            vensure!(got == want, "c09.layer-best-units", "the layer designates {want:?} as the best {sys:?} volume units but the converter lists {got:?}; {}", ctx());
        }
        st.class("best units designated again by the layer");
    }
    let expected_default = if c.default_imperial == Some(true) { System::Imperial } else { System::Metric };
    vensure!(conv.default_system() == expected_default, "c09.layer-default-system", "default system {:?}, the layers say {expected_default:?}; {}", conv.default_system(), ctx());
    // temperatures: the point on the scale is what must be kept (an offset has no additive amount); fitting
    // one keeps the point, whatever unit and fraction it is shown in
    if a.quantity == PhysicalQuantity::Temperature && c.op % 5 == 2 && e.is_none() {
        st.class("fit() of a temperature with fractions on");
        let mut q: ScaledQuantity = Quantity::new(Value::Number(Number::Regular(s)), Some(a.key.clone()));
        match guard(|| q.fit(&conv)) {
            Err(p) => vbail!("c09.panic.system", "fit of {s} {} panicked: {p}; {}", a.key, ctx()),
            Ok(Err(err)) => vbail!("c09.system-conversion-failed", "fit of {s} {} failed: {err}; {}", a.key, ctx()),
            Ok(Ok(())) => {}
        }
        let Some(ru) = q.unit().and_then(|k| conv.find_unit(k)) else {
            vbail!("c09.system-unit-unknown", "fit of {s} {} gave {q:?}; {}", a.key, ctx());
        };
        let Value::Number(n) = q.value() else { vbail!("c09.value-kind", "{q:?}") };
        let (point0, point1) = ((s + a.offset) * a.size, (n.value() + ru.difference) * ru.ratio);
        vensure!(
            approx_eq(point0, point1, 1e-9, 1e-6),
            "c09.system-amount-changed",
            "fit of {s} {} gave {q:?}: {point0} K became {point1} K; {}",
            a.key, ctx()
        );
        return Ok(());
    }
    let op = if a.quantity == PhysicalQuantity::Temperature { 0 } else { c.op % 5 };
    st.class(["convert(unit)", "Converter::convert(SameSystem)", "fit()", "convert(Metric)", "convert(Imperial)"][op as usize]);
    if op == 0 {
        let r = match guard(|| conv.convert(ConvertValue::Number(s), ConvertUnit::Key(&a.key), ConvertTo::Unit(ConvertUnit::Key(&b.key)))) {
            Ok(r) => r,
            Err(p) => vbail!("c09.panic.convert", "convert({s}, {} -> {}) panicked: {p}; {}", a.key, b.key, ctx()),
        };
        let expected = (s + a.offset) * a.size / b.size - b.offset;
        match r {
            Ok((ConvertValue::Number(got), u)) => {
                vensure!(
                    approx_eq(got, expected, 1e-9, if a.quantity == PhysicalQuantity::Temperature { 1e-6 * (1.0 + b.offset.abs()) * 1e-3 } else { 0.0 }) && conv.find_unit(&b.key).is_some_and(|x| *x == *u),
                    "c09.layer-conversion",
                    "{s} {} -> {} gives {got:e} {u}, the definitions imply {expected:e}; {}",
                    a.key, b.key, ctx()
                );
            }
            other => vbail!("c09.layer-conversion", "{s} {} -> {} gives {other:?}; {}", a.key, b.key, ctx()),
        }
        return Ok(());
    }
    // system-directed conversions: the unit comes from the designated list, the amount stays
    let value = match e {
        Some(e) => Value::Range { start: Number::Regular(s), end: Number::Regular(e) },
        None => Value::Number(Number::Regular(s)),
    };
    let mut q: ScaledQuantity = Quantity::new(value, Some(a.key.clone()));
    let before = q.clone();
    let inferred = a.system.unwrap_or(expected_default);
    let (system, what) = match op {
        1 | 2 => (inferred, if op == 1 { "Converter::convert(SameSystem)" } else { "fit()" }),
        3 => (System::Metric, "convert(Metric)"),
        _ => (System::Imperial, "convert(Imperial)"),
    };
    let r = guard(|| match op {
        1 => {
            let v = match q.value() {
                Value::Number(n) => ConvertValue::Number(n.value()),
                Value::Range { start, end } => ConvertValue::Range(start.value()..=end.value()),
                Value::Text(_) => unreachable!(),
            };
            conv.convert(v, ConvertUnit::Key(&a.key), ConvertTo::SameSystem).map(|(v, u)| {
                q = Quantity::new(v.into(), Some(u.symbol().to_string()));
            })
        }
        2 => q.fit(&conv),
        3 => q.convert(System::Metric, &conv),
        _ => q.convert(System::Imperial, &conv),
    });
    match r {
        Err(p) => vbail!("c09.panic.system", "{before:?}.{what} panicked: {p}; {}", ctx()),
        Ok(Err(err)) => vbail!("c09.system-conversion-failed", "{before:?}.{what} failed: {err}; {}", ctx()),
        Ok(Ok(())) => {}
    }
    let Some(ru) = q.unit().and_then(|k| conv.find_unit(k)) else {
        vbail!("c09.system-unit-unknown", "{before:?}.{what} gave {q:?}; {}", ctx());
    };
    let best = conv.best_units(a.quantity, Some(system));
    let fraction_shown = matches!(q.value(), Value::Number(Number::Fraction { .. }) | Value::Range { start: Number::Fraction { .. }, .. });
    let same_unit = conv.find_unit(&a.key).is_some_and(|x| *x == *ru);
    vensure!(
        best.iter().any(|b| **b == *ru) || (op == 2 && fraction_shown && same_unit),
        "c09.unit-not-in-best-list",
        "{before:?}.{what} gave {q:?}: `{ru}` is not in the list designated for {system:?} ({:?}; the unit's own system is {:?}, the default system {expected_default:?}); {}",
        best.iter().map(|b| b.to_string()).collect::<Vec<_>>(),
        a.system,
        ctx()
    );
    // amount, measured with the expected definition of the result unit when the harness knows it
    let rsize = find(&es, &conv, ru.symbol()).map_or(ru.ratio, |en| en.size);
    let amt = |n: &Number, size: f64| n.value() * size;
    let (lo0, hi0) = (s * a.size, e.unwrap_or(s) * a.size);
    let (lo1, hi1) = match q.value() {
        Value::Number(n) => (amt(n, rsize), amt(n, rsize)),
        Value::Range { start, end } => (amt(start, rsize), amt(end, rsize)),
        Value::Text(_) => vbail!("c09.value-kind", "{q:?}"),
    };
    vensure!(
        approx_eq(lo0, lo1, 1e-9, 0.0) && approx_eq(hi0, hi1, 1e-9, 0.0),
        "c09.system-amount-changed",
        "{before:?}.{what} gave {q:?}: amount {lo0:e}..{hi0:e} became {lo1:e}..{hi1:e} (base units); {}",
        ctx()
    );
    Ok(())
}

pub fn strategy() -> impl Strategy<Value = LayerCase> {
    let val = prop_oneof![3 => (1u32..40_000).prop_map(|k| k as f64 / 16.0), 2 => (0.001f64..5000.0), 1 => Just(1.0), 1 => Just(2.5)];
    (
        proptest::option::weighted(0.7, any::<bool>()),
        proptest::array::uniform3(proptest::option::weighted(0.4, 0u8..4)),
        proptest::array::uniform3(proptest::option::weighted(0.25, 0u8..4)),
        any::<bool>(),
        any::<u8>(),
        any::<u8>(),
        val.clone(),
        proptest::option::weighted(0.3, val),
        0u8..5,
    )
        .prop_map(|(default_imperial, resize, resize_again, by_name, unit_a, unit_b, s, e, op)| LayerCase {
            default_imperial,
            resize,
            resize_again,
            by_name,
            unit_a,
            unit_b,
            start_bits: s.to_bits(),
            end_bits: e.map(|e| (s + e).to_bits()),
            op,
        })
}

pub fn run_part(run: &mut Run, tier: Tier) {
    run_prop(
        run,
        "layered",
        "converters built from units.toml plus a generated layer (default system named or not, gram / liter / meter resized through [extend.units] by symbol or name, possibly again by a further layer, three units without a system, four units without a symbol and a temperature unit with an offset that is expanded with SI prefixes): every SI-prefixed key is its base times the prefix factor, conversions between any two units of a quantity give the amount the layers define, Converter::convert(SameSystem) / fit / convert(system) pick a unit from the list of the unit's system or, for a unit without one, of the converter's default system, and keep the amount (relative 1e-9); every case is non-trivial",
        strategy,
        tier.pick(6_000, 400_000),
        |c: &LayerCase, st| {
            st.sample(|| json!({"layer": layer_toml(c), "op": c.op % 5}));
            check(c, st)
        },
    );
}
