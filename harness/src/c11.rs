//! C11 — aisle configuration parsing is total, duplicate-free and round-trips.

use cooklang::aisle::{self, AisleConfError};
use cooklang::error::{write_rich_error, RichError};
use proptest::prelude::*;
use serde::{Deserialize, Serialize};
use serde_json::json;

use crate::common::*;
use crate::{vbail, vensure};

#[derive(Debug, Clone, Serialize, Deserialize)]
pub struct Case {
    pub pieces: Vec<String>,
}

/// independent reference parser for the documented format
fn reference(input: &str) -> Result<Vec<(String, Vec<Vec<String>>)>, &'static str> {
    let mut cats: Vec<(String, Vec<Vec<String>>)> = vec![];
    let mut seen_names: Vec<String> = vec![];
    for raw in input.split('\n') {
        let mut line = raw.strip_suffix('\r').unwrap_or(raw);
        if let Some(i) = line.find("//") {
            line = &line[..i];
        }
        let line = line.trim();
        if line.is_empty() {
            continue;
        }
        if line.starts_with('[') && line.ends_with(']') && line.len() >= 2 {
            let name = &line[1..line.len() - 1];
            if name.contains('|') {
                return Err("pipe in category");
            }
            if cats.iter().any(|(n, _)| n == name) {
                return Err("duplicate category");
            }
            cats.push((name.to_string(), vec![]));
        } else {
            let names: Vec<String> = line.split('|').map(|n| n.trim().to_string()).collect();
            for n in &names {
                if seen_names.contains(n) {
                    return Err("duplicate ingredient");
                }
                seen_names.push(n.clone());
            }
            match cats.last_mut() {
                Some(c) => c.1.push(names),
                None => return Err("ingredient before category"),
            }
        }
    }
    Ok(cats)
}

fn span_in(input: &str, s: cooklang::Span) -> bool {
    s.start() <= s.end() && s.end() <= input.len() && input.is_char_boundary(s.start()) && input.is_char_boundary(s.end())
}

pub fn oracle(input: &str, st: &mut Stats) -> Verdict {
    let res = match guard(|| aisle::parse(input)) {
        Ok(r) => r,
        Err(p) => vbail!("c11.panic.parse", "aisle::parse panicked: {p}; input {input:?}"),
    };
    // "trimmed" is only unambiguous when every blank is ASCII space/tab/CR/LF
    // (a lone CR inside a line is an ordinary character of a name; at the ends of a name it is trimmed like any blank)
    let unambiguous = input.chars().all(|c| !c.is_whitespace() || matches!(c, ' ' | '\t' | '\n' | '\r'));
    let refr = reference(input);
    match &res {
        Err(e) => {
            st.class("rejected");
            let spans: Vec<cooklang::Span> = match e {
                AisleConfError::Parse { span, .. } => vec![*span],
                AisleConfError::DuplicateCategory { first_span, second_span, .. } => vec![*first_span, *second_span],
                AisleConfError::DuplicateIngredient { first_span, second_span, .. } => vec![*first_span, *second_span],
            };
            for s in &spans {
                vensure!(span_in(input, *s), "c11.error-span", "error {e:?} has span {s:?} outside input / off char boundary; input {input:?}");
            }
            for (s, _) in e.labels().iter() {
                vensure!(span_in(input, *s), "c11.error-label", "error label {s:?} invalid; input {input:?}");
            }
            let mut buf = vec![];
            match guard(|| write_rich_error(e, "aisle.conf", input, false, &mut buf)) {
                Ok(Ok(())) => {}
                Ok(Err(io)) => vbail!("c11.render-err", "write_rich_error returned {io}; input {input:?}"),
                Err(p) => vbail!("c11.panic.render", "rendering the error panicked: {p}; input {input:?}"),
            }
            if unambiguous {
                vensure!(
                    refr.is_err(),
                    "c11.valid-file-rejected",
                    "reference parser accepts the file as {:?} but aisle::parse rejects it with {e:?}; input {input:?}",
                    refr
                );
            }
            st.nontrivial(input);
            Ok(())
        }
        Ok(conf) => {
            st.class("accepted");
            if !conf.categories.is_empty() {
                st.nontrivial(input);
            }
            // duplicate freedom
            let mut cats: Vec<&str> = vec![];
            let mut names: Vec<&str> = vec![];
            for c in &conf.categories {
                vensure!(!cats.contains(&c.name), "c11.duplicate-category", "category {:?} occurs twice; input {input:?}", c.name);
                cats.push(c.name);
                for i in &c.ingredients {
                    for n in &i.names {
                        vensure!(!names.contains(n), "c11.duplicate-name", "ingredient name {n:?} occurs twice in the parsed configuration; input {input:?}");
                        names.push(n);
                        vensure!(n.trim() == *n, "c11.untrimmed-name", "ingredient name {n:?} is not trimmed; input {input:?}");
                    }
                }
            }
            // structure vs reference
            if unambiguous {
                match &refr {
                    Err(why) => vbail!("c11.invalid-file-accepted", "reference parser rejects the file ({why}) but aisle::parse accepts it as {:?}; input {input:?}", conf.categories),
                    Ok(r) => {
                        let got: Vec<(String, Vec<Vec<String>>)> = conf
                            .categories
                            .iter()
                            .map(|c| (c.name.to_string(), c.ingredients.iter().map(|i| i.names.iter().map(|n| n.to_string()).collect()).collect()))
                            .collect();
                        vensure!(&got == r, "c11.structure", "parsed {got:?}, expected {r:?}; input {input:?}");
                    }
                }
            }
            // the view the bindings give of the same file: the same categories and names, and every name
            // looks up the category it was written under
            match guard(|| cooklang_bindings::parse_aisle_config(input.to_string())) {
                Err(p) => vbail!("c11.panic.ffi", "the bindings' parse_aisle_config panicked on a file aisle::parse accepts: {p}; input {input:?}"),
                Ok(ffi) => {
                    let core_view: Vec<(String, Vec<Vec<String>>)> = conf.categories.iter().map(|c| (c.name.to_string(), c.ingredients.iter().map(|i| i.names.iter().map(|n| n.to_string()).collect()).collect())).collect();
                    let ffi_view: Vec<(String, Vec<Vec<String>>)> = ffi.categories.iter().map(|c| (c.name.clone(), c.ingredients.iter().map(|i| std::iter::once(i.name.clone()).chain(i.aliases.iter().cloned()).collect()).collect())).collect();
                    vensure!(core_view == ffi_view, "c11.ffi-view", "the bindings list {ffi_view:?}, aisle::parse {core_view:?}; input {input:?}");
                    for c in &conf.categories {
                        for i in &c.ingredients {
                            for n in &i.names {
                                let got = ffi.category_for(n.to_string());
                                vensure!(got.as_deref() == Some(c.name), "c11.lookup", "the bindings' category_for({n:?}) gives {got:?}, the name is written under {:?}; input {input:?}", c.name);
                            }
                        }
                    }
                }
            }
            // write -> parse
            let mut buf = vec![];
            match guard(|| aisle::write(conf, &mut buf)) {
                Ok(Ok(())) => {}
                Ok(Err(io)) => vbail!("c11.write-err", "aisle::write returned {io}; input {input:?}"),
                Err(p) => vbail!("c11.panic.write", "aisle::write panicked: {p}; input {input:?}"),
            }
            // any `io::Write` may take only part of a buffer per call: the same bytes must arrive through a
            // writer that accepts 1, 3 or 7 bytes at a time, and a sink that is too small must give an error
            for chunk in [1usize, 3, 7] {
                let mut w = ChunkWriter { out: vec![], chunk };
                match guard(|| aisle::write(conf, &mut w)) {
                    Ok(Ok(())) => {}
                    Ok(Err(io)) => vbail!("c11.write-err", "aisle::write into a writer taking {chunk} bytes per call returned {io}; input {input:?}"),
                    Err(p) => vbail!("c11.panic.write", "aisle::write panicked: {p}; input {input:?}"),
                }
                vensure!(
                    w.out == buf,
                    "c11.write-truncated",
                    "aisle::write into a writer that takes {chunk} bytes per call delivered {:?}, into a Vec {:?}; input {input:?}",
                    String::from_utf8_lossy(&w.out),
                    String::from_utf8_lossy(&buf)
                );
            }
            if buf.len() > 1 {
                let mut small = vec![0u8; buf.len() - 1];
                let r = guard(|| aisle::write(conf, &mut small[..]));
                vensure!(matches!(r, Ok(Err(_))), "c11.write-truncated", "aisle::write into a sink one byte too small must fail, got {:?}; input {input:?}", r.map(|x| x.map_err(|e| e.to_string())));
            }
            let written = String::from_utf8(buf).map_err(|_| Violation::new("c11.write-utf8", "written file is not UTF-8"))?;
            let re = match guard(|| aisle::parse(&written)) {
                Ok(Ok(c)) => c,
                Ok(Err(e)) => vbail!("c11.roundtrip-rejected", "the written configuration {written:?} is rejected: {e:?}; input {input:?}"),
                Err(p) => vbail!("c11.panic.parse", "parsing the written configuration {written:?} panicked: {p}; input {input:?}"),
            };
            vensure!(
                re.categories == conf.categories && re == *conf,
                "c11.roundtrip-differs",
                "write -> parse gives {:?}, original {:?}; written {written:?}; input {input:?}",
                re.categories,
                conf.categories
            );
            // lookup
            let info = conf.ingredients_info();
            for c in &conf.categories {
                for i in &c.ingredients {
                    for n in &i.names {
                        let Some(x) = info.get(n) else {
                            vbail!("c11.lookup-missing", "name {n:?} not found by ingredients_info; input {input:?}");
                        };
                        vensure!(
                            x.category == c.name && x.common_name == i.names[0] && x.name == *n,
                            "c11.lookup-wrong",
                            "lookup of {n:?} gives category {:?} common name {:?}, expected {:?} / {:?}; input {input:?}",
                            x.category,
                            x.common_name,
                            c.name,
                            i.names[0]
                        );
                    }
                }
            }
            // the older lookup, name -> category
            #[allow(deprecated)]
            let rev = conf.reverse();
            vensure!(rev.len() == info.len(), "c11.lookup-wrong", "reverse() has {} entries, ingredients_info() {}; input {input:?}", rev.len(), info.len());
            for c in &conf.categories {
                for i in &c.ingredients {
                    for n in &i.names {
                        vensure!(rev.get(n).copied() == Some(c.name), "c11.lookup-wrong", "reverse() maps {n:?} to {:?}, its category is {:?}; input {input:?}", rev.get(n), c.name);
                    }
                }
            }
            // a second lookup (also on a clone) must give the same answers
            for other in [conf.ingredients_info(), conf.clone().ingredients_info()] {
                vensure!(other.len() == info.len(), "c11.lookup-not-repeatable", "a repeated ingredients_info() has {} entries, the first had {}; input {input:?}", other.len(), info.len());
                for (k, v) in &info {
                    let ok = other.get(k).is_some_and(|o| o.category == v.category && o.common_name == v.common_name);
                    vensure!(ok, "c11.lookup-not-repeatable", "a repeated ingredients_info() answers differently for {k:?}; input {input:?}");
                }
            }
            vensure!(info.len() == names.len(), "c11.lookup-size", "ingredients_info has {} entries for {} names; input {input:?}", info.len(), names.len());
            // a lookup must not make an equal configuration unequal
            vensure!(re == *conf, "c11.equality-depends-on-lookup", "after ingredients_info() the configuration no longer equals its re-parsed copy; input {input:?}");
            Ok(())
        }
    }
}

const BASE: &[&str] = &["[", "]", "|", "/", "a", "b", " ", "\n"];
const EXTENDED: &[&str] = &["[", "]", "|", "/", "a", "b", " ", "\n", "\r", "\t", "\x0b", "\u{a0}", "é"];

fn count(a: usize, len: u32) -> u64 {
    (0..=len).map(|l| (a as u64).pow(l)).sum()
}
fn decode(alpha: &[&str], mut i: u64, _len: u32) -> Vec<String> {
    let a = alpha.len() as u64;
    let mut l = 0;
    loop {
        let n = a.pow(l);
        if i < n {
            break;
        }
        i -= n;
        l += 1;
    }
    (0..l)
        .map(|_| {
            let t = alpha[(i % a) as usize].to_string();
            i /= a;
            t
        })
        .collect()
}

fn structured() -> impl Strategy<Value = Case> {
    let name = prop_oneof![
        6 => proptest::sample::select(vec!["milk", "tuna", "chunk light tuna", "salt", "sea salt", "Öl", "a", "b", "x y", "", "dairy", "[x", "y]",
            // the name `categorize` uses for what is in no category; characters that look like the separator
            "other", "Other", "Milk", "TUNA", "öl", "x｜y", "soy｜sauce", "y", "a¦b", "a│b", "｜", "/", "a/b", "http://x"]).prop_map(|s| s.to_string()),
        1 => "[a-z]{1,4}".prop_map(|s| s),
        // long names (lengths around the powers of two up to 300 bytes), few distinct ones so that they collide
        1 => (proptest::sample::select(vec![31usize, 32, 33, 63, 64, 65, 127, 128, 129, 255, 256, 300]), proptest::sample::select(vec!["x", "é", "ab ", "日", "x日", "añ🧄"])).prop_map(|(n, unit)| {
            let mut s = String::new();
            while s.len() < n {
                s.push_str(unit);
            }
            s.trim().to_string()
        }),
    ];
    let pad = proptest::sample::select(vec!["", " ", "  ", "\t", "\u{a0}", " \t "]);
    let ingredient = proptest::collection::vec((pad.clone(), name.clone(), pad.clone()), 1..4).prop_map(|v| v.into_iter().map(|(a, n, b)| format!("{a}{n}{b}")).collect::<Vec<_>>().join("|"));
    let line = prop_oneof![
        3 => (pad.clone(), name.clone(), pad.clone()).prop_map(|(a, n, b)| format!("{a}[{n}]{b}")),
        6 => ingredient,
        1 => Just(String::new()),
        1 => Just("// comment".to_string()),
        1 => (name.clone()).prop_map(|n| format!("{n} // trailing comment")),
        1 => Just("[a|b]".to_string()),
    ];
    let nl = proptest::sample::select(vec!["\n", "\n", "\n", "\r\n", "\n\n", "", "\r"]);
    proptest::collection::vec((line, nl), 0..12).prop_map(|v| {
        let mut pieces = vec![];
        for (l, n) in v {
            pieces.push(l);
            pieces.push(n.to_string());
        }
        Case { pieces }
    })
}

pub fn run(tier: Tier) -> i32 {
    let mut run = Run::new("C11", tier);
    run.assume("the structure is compared with the reference parser only when every blank in the input is ASCII space, tab, LF or CR (where `trimmed` is unambiguous; VT, FF, NEL, NBSP and the like are blanks for `str::trim` but the documentation does not say so); all other clauses are checked on every input");
    run.assume("category names are compared verbatim (the text between the brackets)");
    run.replay_regressions(&|_p, j| oracle(&case_from::<Case>(j)?.pieces.concat(), &mut Stats::default()));
    let l1 = tier.pick(6, 7) as u32;
    let n1 = count(BASE.len(), l1);
    if !run.failed() {
        run_indexed(
            &mut run,
            "exhaustive-base",
            &format!("every string of 0..={l1} tokens over {BASE:?}; non-trivial = rejected, or accepted with at least one category; distinct by construction"),
            n1,
            true,
            |i| json!({"pieces": decode(BASE, i, l1)}),
            |i, st| {
                let s = decode(BASE, i, l1).concat();
                let mut s2 = Stats::default();
                let r = oracle(&s, &mut s2);
                if !s2.nontrivial.is_empty() {
                    st.nontrivial_counted += 1;
                }
                for (k, v) in s2.classes {
                    *st.classes.entry(k).or_insert(0) += v;
                }
                if i % 100_003 == 0 {
                    st.sample(|| json!(s));
                }
                r
            },
        );
    }
    let l2 = tier.pick(4, 5) as u32;
    let n2 = count(EXTENDED.len(), l2);
    if !run.failed() {
        run_indexed(
            &mut run,
            "exhaustive-extended",
            &format!("every string of 0..={l2} tokens over the extended alphabet (CR, tab, VT, NBSP, é added); distinct by construction"),
            n2,
            true,
            |i| json!({"pieces": decode(EXTENDED, i, l2)}),
            |i, st| {
                let s = decode(EXTENDED, i, l2).concat();
                let mut s2 = Stats::default();
                let r = oracle(&s, &mut s2);
                if !s2.nontrivial.is_empty() {
                    st.nontrivial_counted += 1;
                }
                for (k, v) in s2.classes {
                    *st.classes.entry(k).or_insert(0) += v;
                }
                if i % 10_007 == 0 {
                    st.sample(|| json!(s));
                }
                r
            },
        );
    }
    if !run.failed() {
        run_prop(
            &mut run,
            "structured",
            "generated aisle files: category lines, ingredient lines with 1-3 `|`-separated names (pool with collisions, empty names, padded with blanks/tab/NBSP), comments, blank lines, LF/CRLF; distinct = distinct text",
            structured,
            tier.pick(60_000, 6_000_000),
            |c: &Case, st| {
                let s = c.pieces.concat();
                st.sample(|| json!(s));
                oracle(&s, st)
            },
        );
    }
    if !run.failed() {
        run_prop(
            &mut run,
            "random",
            "random token strings up to 60 tokens over the extended alphabet plus random words",
            || {
                proptest::collection::vec(
                    prop_oneof![4 => proptest::sample::select(EXTENDED.to_vec()).prop_map(|s| s.to_string()), 1 => "[a-c]{1,3}".prop_map(|s| s)],
                    0..60,
                )
                .prop_map(|pieces| Case { pieces })
            },
            tier.pick(40_000, 4_000_000),
            |c: &Case, st| oracle(&c.pieces.concat(), st),
        );
    }
    run.finish()
}

pub fn replay(_p: &str, j: &serde_json::Value) -> Verdict {
    oracle(&case_from::<Case>(j)?.pieces.concat(), &mut Stats::default())
}

/// an `io::Write` that accepts at most `chunk` bytes per call
struct ChunkWriter {
    out: Vec<u8>,
    chunk: usize,
}

impl std::io::Write for ChunkWriter {
    fn write(&mut self, buf: &[u8]) -> std::io::Result<usize> {
        let n = buf.len().min(self.chunk);
        self.out.extend_from_slice(&buf[..n]);
        Ok(n)
    }
    fn flush(&mut self) -> std::io::Result<()> {
        Ok(())
    }
}
