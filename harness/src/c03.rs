//! C03 — driver (oracle in inv.rs)

use crate::common::*;
use crate::inputs::*;
use crate::inv;

fn oracle(input: &str, ext: usize, conv: u8, st: &mut Stats) -> Verdict {
    inv::c03_pipeline(input, ext, conv, st)
}

/// executions of the libFuzzer leg (thorough tier), over all jobs
pub const FUZZ_RUNS: u64 = 3_000_000;
pub const NONTRIVIAL: &str = "non-trivial = the event stream contains a component or a diagnostic";

pub fn run(tier: Tier) -> i32 {
    let mut run = Run::new("C03", tier);
    run.assume("non-termination is judged by a 20 s deadline per case on inputs far below 8 KiB (normal cost < 1 ms)");
    run.assume("scaling factors are finite and positive; serving counts >= 1");
    run.replay_regressions(&|part, j| if part == "converters" { crate::c03_conv::check(&case_from(j)?, &mut Stats::default()) } else { replay_input(j, &oracle) });
    let b = budget(tier, 1.0);
    let only_conv = std::env::var("VERIF_C03_CONV_ONLY").is_ok();
    if !run.failed() && !only_conv {
        run_inputs(&mut run, &b, NONTRIVIAL, &oracle);
    }
    if !only_conv {
        crate::recipe_inputs::run_recipe_inputs(&mut run, &b, NONTRIVIAL, &oracle);
    }
    if !run.failed() {
        crate::c03_conv::run_part(&mut run, tier.pick(3_000, 200_000));
    }
    crate::big::run_big_part(&mut run, tier, "every public consumer must return");
    if tier == Tier::Thorough && !run.failed() {
        crate::fuzzleg::run_fuzz_leg(&mut run, FUZZ_RUNS, &oracle);
    }
    run.finish()
}

pub fn replay(part: &str, j: &serde_json::Value) -> Verdict {
    if part == "converters" {
        return crate::c03_conv::check(&case_from(j)?, &mut Stats::default());
    }
    if part == "large-inputs" {
        return crate::big::replay(inv::c03_pipeline, j);
    }
    replay_input(j, &oracle)
}
