//! C03, converters: "every converter" includes converters built from units files whose *settings*
//! (not ratios) are extreme: fraction limits at every level with NaN, infinite, negative or > 1
//! accuracies, denominators 0 / 255, whole limits 0 / u32::MAX, units with huge or tiny finite
//! ratios and offsets. Building may fail (a returned error); a converter that is returned must
//! serve every consumer without panicking.

use cooklang::convert::{ConverterBuilder, UnitsFile};
use cooklang::{CooklangParser, Extensions};
use proptest::prelude::*;
use serde::{Deserialize, Serialize};
use serde_json::json;

use crate::common::*;
use crate::vbail;

const ACCURACIES: [&str; 12] = ["0.05", "0", "1", "0.5", "nan", "-nan", "inf", "-inf", "-0.5", "1.5", "1e-40", "3e38"];
const DENOMINATORS: [u8; 9] = [0, 1, 2, 3, 4, 16, 17, 64, 255];
const WHOLES: [u32; 6] = [0, 1, 2, 50, 4294967294, 4294967295];
const RATIOS: [&str; 8] = ["1", "2.5", "1e-300", "1e300", "5e-324", "1.7976931348623157e308", "0.001", "1000"];
const DIFFERENCES: [&str; 6] = ["0", "273.15", "-1e300", "1e300", "1e-300", "32"];
const UNIT_KEYS: [&str; 8] = ["cup", "g", "kg", "tsp", "l", "oz", "big", "C"];
const RECIPES: [&str; 6] = [
    "@a{0.25%cup} @b{7.5%c} @c{1/3%kg} @d{2.5%big} @e{1-2%l} ~{10%min} add 5 g and 3 oz\n",
    "---\nservings: 3\ntime: 1h 10 big\n---\n@x{4294967295.6%cup} @y{0.0001%tsp} @&x{1e300%big} @z{2%small}\n",
    "@t{180%C} @t2{350%F} @t3{1%tiny} @&t{0.5%K} bake at 200 C\n",
    "@a{1%big} @&a{1%tiny} @&a{3%kg} @&a{2%lb} @b{1 1/2%tsp} @&b{0.3%tbsp}\n",
    "@m{33.333%g} @n{0.27%oz} @o{2.1%cup} @p{11.5%l} @q{0.52%lb} @r{7.25%ml}\n",
    "@only{%big} @u{1%unknown} @v{x%kg} #pot{2} ~{1.5%big}\n",
];

/// level settings: (enabled, accuracy, max_denominator, max_whole), each optional (index 0 of the mask = unset)
#[derive(Debug, Clone, Serialize, Deserialize)]
pub struct Level {
    pub mask: u8,
    pub enabled: bool,
    pub accuracy: u8,
    pub den: u8,
    pub whole: u8,
}

#[derive(Debug, Clone, Serialize, Deserialize)]
pub struct ConvCase {
    pub all: Option<Level>,
    pub metric: Option<Level>,
    pub imperial: Option<Level>,
    pub quantity: Vec<(u8, Level)>,
    pub unit: Vec<(u8, Level)>,
    pub ratio: u8,
    pub tiny_ratio: u8,
    pub difference: u8,
    pub recipe: u8,
    pub factor_bits: u64,
}

fn level_toml(l: &Level) -> String {
    if l.mask % 8 == 0 {
        return if l.enabled { "true".into() } else { "false".into() };
    }
    let mut parts = vec![];
    if l.mask & 1 != 0 {
        parts.push(format!("enabled = {}", l.enabled));
    }
    if l.mask & 2 != 0 {
        parts.push(format!("accuracy = {}", ACCURACIES[l.accuracy as usize % ACCURACIES.len()]));
    }
    if l.mask & 4 != 0 {
        parts.push(format!("max_denominator = {}", DENOMINATORS[l.den as usize % DENOMINATORS.len()]));
    }
    if l.mask & 8 != 0 {
        parts.push(format!("max_whole = {}", WHOLES[l.whole as usize % WHOLES.len()]));
    }
    format!("{{ {} }}", parts.join(", "))
}

pub fn layer_toml(c: &ConvCase) -> String {
    let mut s = String::from("[fractions]\n");
    for (k, l) in [("all", &c.all), ("metric", &c.metric), ("imperial", &c.imperial)] {
        if let Some(l) = l {
            s.push_str(&format!("{k} = {}\n", level_toml(l)));
        }
    }
    s.push_str("[fractions.quantity]\n");
    let mut seen = vec![];
    for (q, l) in &c.quantity {
        let name = ["volume", "mass", "length", "temperature", "time"][*q as usize % 5];
        if !seen.contains(&name) {
            seen.push(name);
            s.push_str(&format!("{name} = {}\n", level_toml(l)));
        }
    }
    s.push_str("[fractions.unit]\n");
    let mut seen = vec![];
    for (u, l) in &c.unit {
        let name = UNIT_KEYS[*u as usize % UNIT_KEYS.len()];
        if !seen.contains(&name) {
            seen.push(name);
            s.push_str(&format!("{name} = {}\n", level_toml(l)));
        }
    }
    s.push_str(&format!(
        "[[quantity]]\nquantity = \"mass\"\n[quantity.units]\nmetric = [ {{ names = [\"bigthing\"], symbols = [\"big\"], ratio = {} }} ]\nimperial = [ {{ names = [\"tinything\"], symbols = [\"tiny\"], ratio = {} }} ]\nunspecified = [ {{ names = [\"smallthing\"], symbols = [\"small\"], ratio = 3 }} ]\n",
        RATIOS[c.ratio as usize % RATIOS.len()],
        RATIOS[c.tiny_ratio as usize % RATIOS.len()],
    ));
    s.push_str(&format!(
        "[[quantity]]\nquantity = \"temperature\"\n[quantity.units]\nmetric = [ {{ names = [\"odd\"], symbols = [\"K\"], ratio = {}, difference = {} }} ]\n",
        RATIOS[(c.ratio as usize / 8) % RATIOS.len()],
        DIFFERENCES[c.difference as usize % DIFFERENCES.len()],
    ));
    s
}

pub fn check(c: &ConvCase, st: &mut Stats) -> Verdict {
    let text = layer_toml(c);
    let layer: UnitsFile = match toml::from_str(&text) {
        Ok(l) => l,
        Err(e) => vbail!("c03.infrastructure", "generated units layer is not well typed: {e}\n{text}"),
    };
    let built = guard(|| {
        let mut b = ConverterBuilder::new();
        b.add_units_file(UnitsFile::bundled()).map_err(|e| e.to_string())?;
        b.add_units_file(layer.clone()).map_err(|e| e.to_string())?;
        b.finish().map_err(|e| e.to_string())
    });
    let conv = match built {
        Err(p) => vbail!("c03.panic.converter-build", "building the converter panicked: {p}\n layer:\n{text}"),
        Ok(Err(_)) => {
            st.class("layer rejected by the builder (a returned error)");
            return Ok(());
        }
        Ok(Ok(c)) => c,
    };
    let src = RECIPES[c.recipe as usize % RECIPES.len()];
    let factor = {
        let f = f64::from_bits(c.factor_bits).abs();
        if f.is_finite() && f > 0.0 {
            f
        } else {
            1.5
        }
    };
    let hostile = text.contains("nan") || text.contains("inf") || text.contains("= -0.5") || text.contains("= 1.5") || text.contains("max_denominator = 0") || text.contains("255") || text.contains("e300") || text.contains("e308") || text.contains("e-324");
    let r = guard(|| {
        let p = CooklangParser::new(Extensions::all(), conv.clone());
        let parsed = p.parse(src);
        let mut buf = vec![];
        let _ = parsed.report().write("r.cook", src, false, &mut buf);
        let aisle = cooklang::aisle::parse("[a]\na\nb\n").unwrap();
        if let Some(r) = parsed.into_output() {
            crate::inv::consume_scaled(r.scale(factor, &conv), &conv, &aisle);
        }
        if let Some(r) = p.parse(src).into_output() {
            let _ = r.metadata.time(&conv);
            crate::inv::consume_scaled(r.default_scale(), &conv, &aisle);
        }
        // direct conversions between every pair of a few units
        let keys = ["big", "tiny", "small", "g", "kg", "lb", "K", "C", "F", "cup", "tsp"];
        for a in keys {
            for b in keys {
                for v in [0.0, 0.3, 1.0, 2.5, 1e300, 5e-324, 4294967295.6] {
                    let mut q: cooklang::quantity::ScaledQuantity = cooklang::Quantity::new(cooklang::Value::Number(cooklang::quantity::Number::Regular(v)), Some(a.to_string()));
                    let _ = q.convert(b, &conv);
                    let _ = q.fit(&conv);
                    let _ = q.try_fraction(&conv);
                    let _ = q.to_string();
                }
            }
        }
    });
    if let Err(p) = r {
        vbail!("c03.panic.converter-use", "a converter the builder returned makes a consumer panic: {p}\n recipe {src:?} factor {factor}\n layer:\n{text}");
    }
    st.class_if(hostile, "layer with an out-of-range setting (NaN / infinite / negative / > 1 accuracy, denominator 0 or 255, extreme ratio)");
    st.nontrivial(&text);
    Ok(())
}

fn level() -> impl Strategy<Value = Level> + Clone {
    (0u8..16, any::<bool>(), 0u8..ACCURACIES.len() as u8, 0u8..DENOMINATORS.len() as u8, 0u8..WHOLES.len() as u8).prop_map(|(mask, enabled, accuracy, den, whole)| Level { mask, enabled, accuracy, den, whole })
}

pub fn strategy() -> impl Strategy<Value = ConvCase> {
    (
        (proptest::option::weighted(0.6, level()), proptest::option::weighted(0.6, level()), proptest::option::weighted(0.6, level())),
        proptest::collection::vec((0u8..5, level()), 0..3),
        proptest::collection::vec((0u8..UNIT_KEYS.len() as u8, level()), 0..4),
        (0u8..64, 0u8..8, 0u8..6, 0u8..RECIPES.len() as u8),
        prop_oneof![Just(1.5f64.to_bits()), Just(1.0f64.to_bits()), Just((1.0f64 / 3.0).to_bits()), any::<u64>()],
    )
        .prop_map(|((all, metric, imperial), quantity, unit, (ratio, tiny_ratio, difference, recipe), factor_bits)| ConvCase { all, metric, imperial, quantity, unit, ratio, tiny_ratio, difference, recipe, factor_bits })
}

pub fn run_part(run: &mut Run, cases: u64) {
    run_prop(
        run,
        "converters",
        "units.toml + a generated layer: fraction settings at every level (base, per system, per quantity, per unit; toggles or tables) with accuracies from {0.05, 0, 1, 0.5, nan, -nan, inf, -inf, -0.5, 1.5, 1e-40, 3e38}, max_denominator from {0,1,2,3,4,16,17,64,255}, max_whole from {0,1,2,50,2^32-2,2^32-1}, three extra mass units and an offset temperature unit with ratios / offsets from 5e-324 to 1.8e308; the builder may reject the layer (returned error); a returned converter parses one of 6 recipes, which is scaled (generated finite positive factor), grouped, listed, converted to both systems, fitted and approximated, and 11x11 unit pairs are converted directly with 7 values: nothing may panic; non-trivial = the converter was built; distinct = distinct layer",
        strategy,
        cases,
        |c: &ConvCase, st| {
            st.sample(|| json!({"layer": layer_toml(c), "recipe": RECIPES[c.recipe as usize % RECIPES.len()]}));
            check(c, st)
        },
    );
}
