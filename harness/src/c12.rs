//! C12 — fraction approximation never misstates a value.

use cooklang::quantity::Number;
use proptest::prelude::*;
use serde::{Deserialize, Serialize};
use serde_json::json;

use crate::common::*;
use crate::{vbail, vensure};

#[derive(Debug, Clone, Serialize, Deserialize)]
pub struct Case {
    /// f64 bit pattern (exact) and readable rendering
    pub value_bits: u64,
    pub value: String,
    pub accuracy_bits: u32,
    pub max_den: u8,
    pub max_whole: u32,
}

impl Case {
    fn new(v: f64, acc: f32, max_den: u8, max_whole: u32) -> Self {
        Case {
            value_bits: v.to_bits(),
            value: format!("{v:e}"),
            accuracy_bits: acc.to_bits(),
            max_den,
            max_whole,
        }
    }
    fn v(&self) -> f64 {
        f64::from_bits(self.value_bits)
    }
    fn acc(&self) -> f32 {
        f32::from_bits(self.accuracy_bits)
    }
}

const DENS: [u32; 6] = [2, 3, 4, 8, 10, 16];
pub const ACCS: [f32; 6] = [0.0, 0.01, 0.05, 0.2, 0.5, 1.0];
pub const WHOLES: [u32; 5] = [0, 1, 5, 100, u32::MAX];

/// parse the Display form `w n/d` | `n/d` | `w` | `0`
fn parse_display(s: &str) -> Option<(u64, u64, u64)> {
    let s = s.trim();
    let (w, frac) = match s.split_once(' ') {
        Some((w, f)) => (Some(w), Some(f)),
        None => {
            if s.contains('/') {
                (None, Some(s))
            } else {
                (Some(s), None)
            }
        }
    };
    let w = match w {
        Some(w) => w.parse::<u64>().ok()?,
        None => 0,
    };
    let (n, d) = match frac {
        Some(f) => {
            let (n, d) = f.split_once('/')?;
            (n.parse::<u64>().ok()?, d.parse::<u64>().ok()?)
        }
        None => (0, 1),
    };
    Some((w, n, d))
}

/// approximating an already approximated number again (same or other limits) must keep the value
fn check_repeated(c: &Case) -> Verdict {
    let (v, acc, max_den, max_whole) = (c.v(), c.acc(), c.max_den, c.max_whole);
    if !(v > 0.0) || !v.is_finite() {
        return Ok(());
    }
    let mut n = Number::Regular(v);
    let tol = 16.0 * f64::EPSILON * v.max(1.0);
    for (i, (a, d, w)) in [(acc, max_den, max_whole), (acc, max_den, max_whole), (0.05f32, 4u8, u32::MAX), (1.0f32, 16u8, u32::MAX)].into_iter().enumerate() {
        let before = n;
        let r = match guard(|| {
            let mut m = n;
            let r = m.try_approx(a, d, w);
            (m, r)
        }) {
            Ok(x) => x,
            Err(p) => vbail!("c12.panic", "try_approx panicked: {p}"),
        };
        n = r.0;
        vensure!(
            (n.value() - v).abs() <= tol,
            "c12.repeated-approximation-misstates",
            "step {i}: try_approx({a}, {d}, {w}) on {before:?} (original input {v:e}) gives {n:?} with value {:e}",
            n.value()
        );
        if !r.1 {
            vensure!(format!("{n:?}") == format!("{before:?}"), "c12.declined-but-changed", "try_approx returned false but changed {before:?} into {n:?}");
        }
    }
    Ok(())
}

pub fn oracle(c: &Case, st: &mut Stats) -> Verdict {
    check_repeated(c)?;
    let (v, acc, max_den, max_whole) = (c.v(), c.acc(), c.max_den, c.max_whole);
    // documented preconditions of new_approx (it panics otherwise): 0 <= accuracy <= 1, max_den <= 64
    assert!((0.0..=1.0).contains(&acc) && max_den <= 64);
    // a call with looser limits right before (same thread): nothing of it may carry over
    let _ = guard(|| (Number::new_approx(v, 1.0, 64, u32::MAX), Number::new_approx(v, acc, 64, u32::MAX)));
    let r = match guard(|| Number::new_approx(v, acc, max_den, max_whole)) {
        Ok(r) => r,
        Err(p) => vbail!("c12.panic", "new_approx({v:e}, {acc}, {max_den}, {max_whole}) panicked: {p}"),
    };
    if !(v > 0.0) || !v.is_finite() {
        st.class("non-positive-or-non-finite");
        vensure!(r.is_none(), "c12.nonpositive-accepted", "new_approx({v:e}) returned {r:?}, must decline");
        return Ok(());
    }
    let is_int = v.fract() == 0.0;
    if is_int {
        st.class("integer-input");
        if v <= max_whole as f64 {
            vensure!(
                matches!(r, Some(Number::Regular(x)) if x == v),
                "c12.integer-within-limit-not-plain",
                "integer {v} <= max_whole {max_whole} must come back as Regular({v}), got {r:?}"
            );
        } else {
            vensure!(r.is_none(), "c12.integer-above-limit", "integer {v} > max_whole {max_whole} must be declined, got {r:?}");
        }
        return Ok(());
    }
    match r {
        None => {
            st.class("declined");
            Ok(())
        }
        Some(Number::Regular(x)) => {
            st.class("regular");
            // only legitimate for values that are integers up to the documented 1e-10 margin
            vensure!(x == v, "c12.regular-differs", "Regular({x:e}) returned for input {v:e}");
            vensure!(
                v.fract() < 1e-10,
                "c12.regular-for-non-integer",
                "non-integer {v:e} returned as plain number"
            );
            vensure!(
                v.trunc() <= max_whole as f64,
                "c12.whole-above-limit",
                "Regular({x}) has whole part above max_whole {max_whole}"
            );
            Ok(())
        }
        Some(n @ Number::Fraction { whole, num, den, err }) => {
            st.class(if num == 0 { "fraction-rounded-to-whole" } else { "fraction" });
            st.nontrivial(&(c.value_bits, c.accuracy_bits, max_den, max_whole));
            vensure!(den != 0, "c12.zero-den", "denominator 0 for {v:e}: {n:?}");
            // exact value
            let tol = 8.0 * f64::EPSILON * v.max(1.0);
            let nv = match guard(|| n.value()) {
                Ok(x) => x,
                Err(p) => vbail!("c12.panic", "Number::value() of {n:?} panicked: {p}"),
            };
            vensure!(
                (nv - v).abs() <= tol,
                "c12.value-misstated",
                "value() = {:e} but input {v:e} (whole {whole} num {num} den {den} err {err:e})",
                n.value()
            );
            // err is what it claims to be
            let frac_val = whole as f64 + num as f64 / den as f64;
            vensure!(
                ((v - frac_val) - err).abs() <= tol,
                "c12.err-wrong",
                "err {err:e} but input - fraction = {:e}",
                v - frac_val
            );
            // within accuracy
            let max_err = acc as f64 * v;
            vensure!(
                err.abs() <= max_err * (1.0 + 1e-12) + f64::MIN_POSITIVE,
                "c12.error-above-accuracy",
                "|err| {:e} > accuracy {acc} * {v:e} = {max_err:e} ({whole} {num}/{den})",
                err.abs()
            );
            vensure!(
                whole <= max_whole,
                "c12.whole-above-limit",
                "whole {whole} > max_whole {max_whole} for {v:e}"
            );
            if num != 0 {
                vensure!(
                    DENS.contains(&den),
                    "c12.unsupported-denominator",
                    "denominator {den} not one of {DENS:?} for {v:e}"
                );
                vensure!(
                    den <= max_den as u32,
                    "c12.den-above-limit",
                    "denominator {den} > max_den {max_den} for {v:e}"
                );
                vensure!(
                    num < den,
                    "c12.improper",
                    "numerator {num} not below denominator {den} for {v:e}"
                );
            }
            // printed form
            let shown = format!("{n}");
            let Some((pw, pn, pd)) = parse_display(&shown) else {
                vbail!("c12.display-unparseable", "Display {shown:?} of {n:?} is not `w n/d`");
            };
            vensure!(pd != 0, "c12.display-zero-den", "Display {shown:?}");
            // pw + pn/pd == whole + num/den as exact rationals
            let lhs = (pw as u128 * pd as u128 + pn as u128) * den as u128;
            let rhs = (whole as u128 * den as u128 + num as u128) * pd as u128;
            vensure!(
                lhs == rhs,
                "c12.display-differs",
                "Display {shown:?} does not denote {whole} {num}/{den}"
            );
            Ok(())
        }
    }
}

fn value_strategy() -> impl Strategy<Value = f64> + Clone {
    prop_oneof![
        4 => (1u32..=8 * 3840).prop_map(|k| k as f64 / 3840.0),
        3 => (0.0f64..1e6).prop_map(|x| x),
        2 => 0.0f64..20.0,
        1 => (0u32..5000, -3i32..=3).prop_map(|(k, e)| k as f64 + e as f64 * 1e-11),
        1 => (0u32..2000, 1u32..=16, 0u32..16, -50i32..=50)
            .prop_map(|(w, d, n, e)| w as f64 + (n % d) as f64 / d as f64 + e as f64 * 1e-4),
        1 => (0u32..64).prop_map(|k| 4294967295.0 - k as f64 * 0.25),
        1 => (0u32..=64).prop_map(|k| 4294967295.0 + k as f64 / 64.0),
        1 => (0u32..64).prop_map(|k| 4294967296.0 + k as f64 * 0.5),
        1 => any::<f64>(),
        1 => prop_oneof![
            Just(0.0), Just(-0.0), Just(f64::NAN), Just(f64::INFINITY), Just(f64::NEG_INFINITY),
            Just(-1.5), Just(f64::MIN_POSITIVE), Just(1e-10), Just(1e-11), Just(0.99999999999),
            Just(f64::MAX), Just(1e300), Just(5e-324),
        ],
    ]
}

fn case_strategy() -> impl Strategy<Value = Case> + Clone {
    let acc = prop_oneof![
        3 => proptest::sample::select(ACCS.to_vec()),
        2 => 0.0f32..=1.0f32,
    ];
    let whole = prop_oneof![
        3 => proptest::sample::select(WHOLES.to_vec()),
        2 => 0u32..2000,
        1 => any::<u32>(),
    ];
    (value_strategy(), acc, 0u8..=64, whole).prop_map(|(v, a, d, w)| Case::new(v, a, d, w))
}

pub fn run(tier: Tier) -> i32 {
    let mut run = Run::new("C12", tier);
    run.assume("documented preconditions of Number::new_approx: 0 <= accuracy <= 1 and max_den <= 64 (it panics otherwise by contract)");
    run.replay_regressions(&|_part, j| replay(j));

    // (a) dense grid, exhaustive over the parameter sets
    let step: u64 = tier.pick(480, 3840);
    let span: u64 = tier.pick(4, 8);
    let nvals = step * span; // values k/step, k = 1..=nvals
    let n = nvals * 65 * ACCS.len() as u64 * WHOLES.len() as u64;
    let decode = move |i: u64| -> Case {
        let mut i = i;
        let w = WHOLES[(i % WHOLES.len() as u64) as usize];
        i /= WHOLES.len() as u64;
        let a = ACCS[(i % ACCS.len() as u64) as usize];
        i /= ACCS.len() as u64;
        let d = (i % 65) as u8;
        i /= 65;
        let v = (i + 1) as f64 / step as f64;
        Case::new(v, a, d, w)
    };
    run_indexed(
        &mut run,
        "grid",
        &format!("every value k/{step} in (0,{span}] x max_den 0..=64 x accuracy {ACCS:?} x max_whole {WHOLES:?}; non-trivial = the call returned a fraction; distinct by construction"),
        n,
        true,
        |i| serde_json::to_value(decode(i)).unwrap(),
        |i, st| {
            let c = decode(i);
            let mut s2 = Stats::default();
            let r = oracle(&c, &mut s2);
            if s2.classes.contains_key("fraction") || s2.classes.contains_key("fraction-rounded-to-whole") {
                st.nontrivial_counted += 1;
            }
            for (k, v) in s2.classes {
                *st.classes.entry(k).or_insert(0) += v;
            }
            if i % 1_000_003 == 0 {
                st.sample(|| json!({"value": c.value, "accuracy": c.acc(), "max_den": c.max_den, "max_whole": c.max_whole,
                    "result": format!("{:?}", Number::new_approx(c.v(), c.acc(), c.max_den, c.max_whole))}));
            }
            r
        },
    );

    // (b) random
    let cases = tier.pick(400_000, 40_000_000);
    run_prop(
        &mut run,
        "random",
        "random (value, accuracy, max_den, max_whole): values from the 1/3840 grid, uniform in (0,1e6), near-integers k±1e-11, near 2^32, any f64 incl. NaN/inf/negatives; non-trivial = a fraction was returned; distinct = distinct argument tuple",
        case_strategy,
        cases,
        |c, st| {
            let r = oracle(c, st);
            st.sample(|| json!({"value": c.value, "accuracy": c.acc(), "max_den": c.max_den, "max_whole": c.max_whole,
                "result": format!("{:?}", Number::new_approx(c.v(), c.acc(), c.max_den, c.max_whole))}));
            r
        },
    );
    // (c) the callers
    if !run.failed() {
        run_prop(
            &mut run,
            "callers",
            "numeric and range quantities in any bundled unit (any key) passed to fit / convert(Metric) / convert(Imperial) / try_fraction / convert(to a unit): every fraction in the result (both range ends) obeys the settings the units files give for the unit the result is expressed in (enabled, whole limit, denominator limit, accuracy), computed from the files by the harness, for units.toml alone and for units.toml plus a second fractions layer with explicit limits at every level; non-trivial = the result holds a fraction; distinct = distinct case",
            caller_strategy,
            tier.pick(150_000, 8_000_000),
            |c: &CallerCase, st| {
                st.sample(|| json!({"unit": c.unit, "start": f64::from_bits(c.start_bits), "end": c.end_bits.map(f64::from_bits), "op": c.op % 5}));
                check_caller(c, st)
            },
        );
    }
    run.finish()
}

pub fn replay(j: &serde_json::Value) -> Verdict {
    if j.get("op").is_some() {
        return check_caller(&case_from(j)?, &mut Stats::default());
    }
    let c: Case = case_from(j)?;
    oracle(&c, &mut Stats::default())
}

// ---------------------------------------------------------------------------
// callers: the limits "requested" by try_fraction / fit / convert are the fraction settings the
// units file gives for the unit the result is expressed in

use cooklang::convert::{System, UnitsFile};
use cooklang::quantity::{Quantity, ScaledQuantity, Value};

use crate::pipeline::BUNDLED;

#[derive(Debug, Clone, Serialize, Deserialize)]
pub struct CallerCase {
    pub unit: u16,
    pub key: u8,
    pub start_bits: u64,
    pub end_bits: Option<u64>,
    /// 0 fit, 1 convert(Metric), 2 convert(Imperial), 3 try_fraction, 4 convert(to unit `target`)
    pub op: u8,
    pub target: u16,
}

/// a second fractions layer on top of units.toml: general levels with explicit limits, unit entries stricter
/// and looser than them
const FRACTIONS_LAYER: &str = r#"
[fractions]
all = { max_whole = 50 }
imperial = { enabled = true, accuracy = 0.2, max_denominator = 16 }
metric = { enabled = true, accuracy = 0.1, max_denominator = 2 }
[fractions.quantity]
mass = { enabled = true, accuracy = 0.01, max_denominator = 8, max_whole = 20 }
[fractions.unit]
tsp = { accuracy = 0.02, max_denominator = 2, max_whole = 5 }
lb = { max_denominator = 3 }
kg = { enabled = true, max_denominator = 4 }
cup = { accuracy = 0.5 }
ml = { enabled = false }
gal = { max_denominator = 1 }
oz = { max_denominator = 0, accuracy = 0.3 }
[[quantity]]
quantity = "volume"
[quantity.units]
unspecified = [ { names = ["ladle"], symbols = ["ldl"], ratio = 0.1 } ]
[[quantity]]
quantity = "mass"
[quantity.units]
unspecified = [ { names = ["knob"], symbols = ["knb"], ratio = 15 } ]
"#;

/// a third configuration: strict limits at the general levels, bare toggles above them (a toggle only
/// switches on or off: the limits still come from the levels below)
const STRICT_LAYER: &str = r#"
[fractions]
all = { enabled = true, accuracy = 0.01, max_denominator = 2, max_whole = 3 }
imperial = { enabled = true, max_denominator = 2, max_whole = 3 }
metric = { enabled = true, max_denominator = 3, max_whole = 2 }
[fractions.quantity]
mass = true
length = false
[fractions.unit]
cup = true
lb = true
ml = true
oz = { accuracy = 0.1 }
g = { max_whole = 7 }
m = { enabled = true }
tsp = false
"#;

/// a fourth configuration that does not build on units.toml: quantities whose units have no system (one unified
/// best list) get their limits from the `all` level, whatever system a conversion aims at
const STANDALONE_UNITS: &str = r#"
default_system = "metric"
[fractions]
all = { enabled = true, accuracy = 0.001, max_denominator = 2, max_whole = 3 }
metric = { enabled = true, accuracy = 0.1, max_denominator = 8 }
imperial = { enabled = true, accuracy = 0.2, max_denominator = 16, max_whole = 100 }
[[quantity]]
quantity = "time"
best = ["s", "min", "h", "d"]
units = [ { names = ["second"], symbols = ["s"], ratio = 1 }, { names = ["minute"], symbols = ["min"], ratio = 60 }, { names = ["hour"], symbols = ["h"], ratio = 3600 }, { names = ["day"], symbols = ["d"], ratio = 86400 } ]
[[quantity]]
quantity = "mass"
best = ["g", "kg"]
units = [ { names = ["gram"], symbols = ["g"], ratio = 1 }, { names = ["kilogram"], symbols = ["kg"], ratio = 1000 }, { names = ["stone"], symbols = ["st"], ratio = 6350.29 } ]
[[quantity]]
quantity = "volume"
best = { metric = ["ml", "l"], imperial = ["c", "floz"] }
[quantity.units]
metric = [ { names = ["litre"], symbols = ["l"], ratio = 1 }, { names = ["millilitre"], symbols = ["ml"], ratio = 0.001 } ]
imperial = [ { names = ["cup"], symbols = ["c"], ratio = 0.2366 }, { names = ["fluid ounce"], symbols = ["floz"], ratio = 0.02957 } ]
[[quantity]]
quantity = "length"
best = ["cm", "m"]
units = [ { names = ["metre"], symbols = ["m"], ratio = 1 }, { names = ["centimetre"], symbols = ["cm"], ratio = 0.01 } ]
[[quantity]]
quantity = "temperature"
best = ["C"]
units = [ { names = ["celsius"], symbols = ["C"], ratio = 1, difference = 273.15 } ]
"#;

type FracTable = Vec<(String, (bool, f32, u8, u32))>;

/// (converter, (enabled, accuracy, max denominator, max whole) per unit symbol) for units.toml alone and for
/// units.toml + FRACTIONS_LAYER. The settings are computed from the files with the documented layering: the
/// general levels (base, per system, per quantity) of a later file replace those of an earlier one; a unit
/// entry (the last one naming the unit) fills what it leaves unset from the final quantity, system and base
/// levels in that order; a unit without an entry uses the first of quantity, system, base that is set.
static CONFIGS: std::sync::LazyLock<Result<Vec<(cooklang::Converter, FracTable)>, String>> = std::sync::LazyLock::new(|| {
    let text = std::fs::read_to_string(repo_dir().join("units.toml")).map_err(|e| format!("cannot read units.toml: {e}"))?;
    let mut out = vec![];
    for (base, layer) in [(text.as_str(), None), (text.as_str(), Some(FRACTIONS_LAYER)), (text.as_str(), Some(STRICT_LAYER)), (STANDALONE_UNITS, None)] {
        let mut files: Vec<UnitsFile> = vec![toml::from_str(base).map_err(|e| format!("units file: {e}"))?];
        if let Some(layer) = layer {
            files.push(toml::from_str(layer).map_err(|e| format!("fractions layer: {e}"))?);
        }
        let mut b = cooklang::convert::ConverterBuilder::new();
        for f in files.clone() {
            b.add_units_file(f).map_err(|e| format!("the builder rejects the fractions layer: {e}"))?;
        }
        let conv = b.finish().map_err(|e| format!("the builder rejects the fractions layer: {e}"))?;
        // the settings are read from the TOML text by the harness, not through the crate's own
        // `FractionsConfigWrapper::get` / `FractionsConfigHelper`: a bare toggle sets `enabled` and nothing else
        #[derive(Clone, Copy, Default)]
        struct H {
            enabled: Option<bool>,
            accuracy: Option<f32>,
            max_denominator: Option<u8>,
            max_whole: Option<u32>,
        }
        let read = |v: &toml::Value| -> H {
            match v {
                toml::Value::Boolean(b) => H { enabled: Some(*b), ..H::default() },
                toml::Value::Table(t) => H {
                    enabled: t.get("enabled").and_then(|x| x.as_bool()),
                    accuracy: t.get("accuracy").and_then(|x| x.as_float().or(x.as_integer().map(|i| i as f64))).map(|f| f as f32),
                    max_denominator: t.get("max_denominator").and_then(|x| x.as_integer()).map(|i| i as u8),
                    max_whole: t.get("max_whole").and_then(|x| x.as_integer()).map(|i| i as u32),
                },
                _ => H::default(),
            }
        };
        let merge = |a: H, b: H| H { enabled: a.enabled.or(b.enabled), accuracy: a.accuracy.or(b.accuracy), max_denominator: a.max_denominator.or(b.max_denominator), max_whole: a.max_whole.or(b.max_whole) };
        let define = |h: H| (h.enabled.unwrap_or(false), h.accuracy.unwrap_or(0.05).clamp(0.0, 1.0), h.max_denominator.unwrap_or(4).clamp(1, 16), h.max_whole.unwrap_or(u32::MAX));
        let mut texts: Vec<&str> = vec![base];
        texts.extend(layer);
        let mut layers: Vec<toml::Value> = vec![];
        for t in &texts {
            let v: toml::Value = toml::from_str(t).map_err(|e| format!("units file as TOML value: {e}"))?;
            if let Some(f) = v.get("fractions") {
                layers.push(f.clone());
            }
        }
        let _ = &files;
        let quantity_name = |q: cooklang::convert::PhysicalQuantity| q.to_string().to_lowercase();
        let last = |pick: &dyn Fn(&toml::Value) -> Option<H>| layers.iter().rev().find_map(|l| pick(l));
        let mut table = vec![];
        for u in conv.all_units() {
            let qname = quantity_name(u.physical_quantity);
            let general: Vec<H> = [
                last(&|l| l.get("quantity").and_then(|q| q.get(&qname)).map(read)),
                u.system.and_then(|s| match s {
                    System::Metric => last(&|l| l.get("metric").map(read)),
                    System::Imperial => last(&|l| l.get("imperial").map(read)),
                }),
                last(&|l| l.get("all").map(read)),
            ]
            .into_iter()
            .flatten()
            .collect();
            let own = layers.iter().rev().find_map(|l| l.get("unit").and_then(|t| t.as_table()).and_then(|t| t.iter().find(|(k, _)| conv.find_unit(k).is_some_and(|f| *f == *u)).map(|(_, c)| read(c))));
            let cfg = match own {
                Some(c) => define(general.iter().fold(c, |acc, g| merge(acc, *g))),
                None => define(general.first().copied().unwrap_or_default()),
            };
            table.push((u.symbol().to_string(), cfg));
        }
        out.push((conv, table));
    }
    Ok(out)
});

fn check_caller(c: &CallerCase, st: &mut Stats) -> Verdict {
    let configs = CONFIGS.as_ref().map_err(|e| Violation::new("c12.infrastructure", e.clone()))?;
    // the configuration is picked by the target: units.toml alone, + the layer with explicit limits, + the strict layer under toggles
    let (conv, table) = &configs[(c.target as usize / 7) % 4];
    let layered = (c.target as usize / 7) % 4 != 0;
    st.class_if((c.target as usize / 7) % 4 == 2, "units.toml + strict general levels under bare toggles");
    st.class_if((c.target as usize / 7) % 4 == 3, "standalone units file (units without a system under a unified best list)");
    let units: Vec<_> = conv.all_units().collect();
    let u = units[c.unit as usize % units.len()];
    let keys: Vec<String> = u.names.iter().chain(&u.symbols).chain(&u.aliases).map(|k| k.to_string()).collect();
    let key = &keys[c.key as usize % keys.len()];
    let (s, e) = (f64::from_bits(c.start_bits), c.end_bits.map(f64::from_bits));
    // a seventh of the single-number cases start from a number that already is a fraction, as written in a
    // recipe (`3/2`, `9 1/7`) or left by an earlier step: improper ones, other denominators, large whole parts
    let fraction_input = e.is_none() && s > 0.0 && c.key % 7 == 3;
    let (s, value) = if fraction_input {
        let b = c.start_bits;
        let n = Number::Fraction { whole: (b % 9) as u32, num: 1 + ((b >> 5) % 11) as u32, den: [2, 3, 4, 5, 7, 8, 16][((b >> 11) % 7) as usize], err: if (b >> 17) % 3 == 0 { 0.3 } else { 0.0 } };
        (n.value(), Value::Number(n))
    } else {
        let value = match e {
            Some(e) => Value::Range { start: Number::Regular(s), end: Number::Regular(e) },
            None => Value::Number(Number::Regular(s)),
        };
        (s, value)
    };
    let mut q: ScaledQuantity = Quantity::new(value, Some(key.clone()));
    let before = q.clone();
    let target = units[c.target as usize % units.len()].symbol().to_string();
    let what = ["fit()", "convert(Metric)", "convert(Imperial)", "try_fraction()", "convert(unit)"][c.op as usize % 5];
    let r = guard(|| match c.op % 5 {
        0 => q.fit(conv).is_ok(),
        1 => q.convert(System::Metric, conv).is_ok(),
        2 => q.convert(System::Imperial, conv).is_ok(),
        3 => q.try_fraction(conv),
        _ => q.convert(target.as_str(), conv).is_ok(),
    });
    let done = match r {
        Err(p) => vbail!("c12.panic", "{before:?}.{what} panicked: {p}"),
        Ok(d) => d,
    };
    if fraction_input {
        st.class("the input already is a fraction");
        if !done {
            // declined or failed: the input stays as it was written, nothing was claimed about it
            return Ok(());
        }
    }
    let Some(ru) = q.unit().and_then(|k| conv.find_unit(k)) else {
        return Ok(());
    };
    st.class_if(layered, "units.toml + a second fractions layer");
    let Some((_, (enabled, acc, max_den, max_whole))) = table.iter().find(|(sym, _)| sym == ru.symbol()) else {
        vbail!("c12.infrastructure", "unit {ru} not in the fraction table");
    };
    st.class(what);
    st.class_if(e.is_some(), "range");
    let nums: Vec<(&str, &Number)> = match q.value() {
        Value::Number(n) => vec![("value", n)],
        Value::Range { start, end } => vec![("range start", start), ("range end", end)],
        Value::Text(_) => vec![],
    };
    for (which, n) in nums {
        // non-positive amounts are never approximated: a fraction cannot stand for them
        let input = if which == "range end" { e.unwrap_or(s) } else { s };
        if input <= 0.0 {
            let sign_kept = n.value() <= 0.0 || ru.physical_quantity == cooklang::convert::PhysicalQuantity::Temperature;
            vensure!(!matches!(n, Number::Fraction { .. }) && sign_kept, "c12.nonpositive-accepted", "{which} of {before:?}.{what} is {n:?}: a non-positive amount was approximated or lost its sign; result {q:?}");
        }
        if let Number::Fraction { whole, num, den, err } = *n {
            st.nontrivial(&(c.unit as usize % units.len(), c.start_bits, c.end_bits, c.op % 5, c.target as usize % units.len()));
            st.class("fraction in the result");
            st.class_if(ru.symbol() != u.symbol(), "fraction in another unit than the input");
            let v = n.value();
            let ctx = format!("{}{before:?}.{what} gave {q:?}; the units file gives `{}` enabled={enabled} accuracy={acc} max_denominator={max_den} max_whole={max_whole}", if layered { "[units.toml + fractions layer] " } else { "" }, ru.symbol());
            vensure!(*enabled, "c12.caller-fraction-where-disabled", "{which} is a fraction although fractions are disabled for the result unit: {ctx}");
            vensure!(whole <= *max_whole, "c12.caller-whole-above-limit", "{which}: whole part {whole} above the limit of the result unit: {ctx}");
            if num != 0 {
                vensure!(den <= *max_den as u32 && DENS.contains(&den), "c12.caller-den-above-limit", "{which}: denominator {den} above the limit of the result unit: {ctx}");
                vensure!(num < den, "c12.improper", "{which}: numerator {num} not below denominator {den}: {ctx}");
            }
            vensure!(err.abs() <= *acc as f64 * v.abs() * (1.0 + 1e-9) + f64::MIN_POSITIVE, "c12.caller-error-above-accuracy", "{which}: recorded error {err:e} above accuracy x value: {ctx}");
        }
    }
    Ok(())
}

fn caller_strategy() -> impl Strategy<Value = CallerCase> {
    let val = prop_oneof![
        3 => (1u32..40_000).prop_map(|k| k as f64 / 16.0),
        2 => (1u32..4000).prop_map(|k| k as f64 / 12.0),
        2 => (0.01f64..50.0),
        1 => (0.0f64..5000.0),
    ];
    let start = prop_oneof![9 => val.clone(), 1 => val.clone().prop_map(|v| -v)];
    (any::<u16>(), any::<u8>(), start, proptest::option::weighted(0.5, val), 0u8..5, any::<u16>()).prop_map(|(unit, key, s, e, op, target)| CallerCase {
        unit,
        key,
        start_bits: s.to_bits(),
        // a range that starts below zero may end above it
        end_bits: e.map(|e| (s + e).to_bits()),
        op,
        target,
    })
}
