//! Verification harness library: oracles, generators and drivers shared by the `verif` binary and the fuzz target.
#![allow(clippy::all)]
#![allow(dead_code)]

pub mod common;
pub mod big;
pub mod c01;
pub mod c02;
pub mod c03;
pub mod c03_conv;
pub mod c04;
pub mod c05;
pub mod c06;
pub mod c07;
pub mod c08;
pub mod c09;
pub mod c09_layers;
pub mod c09_recipe;
pub mod c10;
pub mod c11;
pub mod c12;
pub mod c13;
pub mod c14;
pub mod c15;
pub mod c16;
pub mod c17;
pub mod c18;
pub mod c19;
pub mod fuzzleg;
pub mod gen_recipe;
pub mod image;
pub mod inputs;
pub mod inv;
pub mod model;
pub mod pipeline;
pub mod print;
pub mod recipe_inputs;
pub mod soup;
