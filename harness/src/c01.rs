//! C01 — printing a recipe as Cooklang and parsing it returns that recipe.

use cooklang::CooklangParser;
use serde_json::json;
use std::sync::LazyLock;

use crate::common::*;
use crate::gen_recipe::*;
use crate::image::*;
use crate::model::*;
use crate::print::*;
use crate::{vbail, vensure};

pub static CANONICAL: LazyLock<CooklangParser> = LazyLock::new(CooklangParser::canonical);
pub static EXTENDED: LazyLock<CooklangParser> = LazyLock::new(CooklangParser::extended);

pub fn classify(m: &RecipeM, f: &Features, st: &mut Stats) {
    let mut refs = false;
    let mut inter = false;
    let mut comps = 0;
    let mut with_qty = false;
    for b in &m.blocks {
        match b {
            BlockM::Section(_) => st.class("section"),
            BlockM::Text(_) => st.class("text-paragraph"),
            BlockM::Mode(_) => st.class("mode-switch"),
            BlockM::Meta(_, _) => st.class("`>>` metadata"),
            BlockM::StepLine(_) => st.class("`>>` line that is a step (front matter present)"),
            BlockM::Step(toks) => {
                for t in toks {
                    match &t.tok {
                        TokM::Comp(c) => {
                            comps += 1;
                            with_qty |= c.qty.is_some();
                            if c.inter.is_some() {
                                inter = true;
                            } else if c.mods & M_REF != 0 {
                                refs = true;
                            }
                            st.class_if(c.alias.is_some(), "alias");
                            st.class_if(c.note.is_some(), "note");
                            st.class_if(!c.name.is_ascii(), "unicode-name");
                            if let Some(q) = &c.qty {
                                match &q.value {
                                    ValM::Range(..) => st.class("range"),
                                    ValM::Num(NumM::Frac(..) | NumM::Mixed(..)) => st.class("fraction"),
                                    ValM::Text(_) => st.class("text-value"),
                                    _ => {}
                                }
                                st.class_if(q.lock, "scaling-lock");
                                st.class_if(q.blank_sep, "unit-without-%");
                            }
                        }
                        TokM::Timer(t) => {
                            comps += 1;
                            with_qty = true;
                            st.class(if t.qty.is_some() { "timer" } else { "timer-without-duration" })
                        }
                        TokM::Inline { .. } => st.class("inline-quantity"),
                        TokM::Raw(_) => st.class("component-kept-as-text-in-text-mode"),
                        TokM::Escaped(_) => st.class("escaped-char"),
                        _ => {}
                    }
                }
            }
        }
    }
    st.class_if(refs, "reference");
    st.class_if(inter, "intermediate-reference");
    st.class_if(m.front.is_some(), "front-matter");
    st.class_if(f.soft_wraps > 0, "soft-wrap");
    st.class_if(f.comments > 0, "comment");
    st.class_if(f.escapes > 0, "escape");
    st.class_if(f.crlf, "crlf");
    let _ = comps;
    let _ = with_qty;
}

pub fn nontrivial(m: &RecipeM, f: &Features) -> bool {
    let has_qty_comp = m.blocks.iter().any(|b| {
        matches!(b, BlockM::Step(t) if t.iter().any(|x| matches!(&x.tok, TokM::Comp(c) if c.qty.is_some()) || matches!(&x.tok, TokM::Timer(_))))
    });
    has_qty_comp && (f.soft_wraps > 0 || f.comments > 0 || f.escapes > 0 || f.odd_spacing > 0)
}

pub fn check_roundtrip(raw: &RawRecipe, st: &mut Stats) -> Verdict {
    // the canonical parser does not require timers to have a duration
    let m = build_with(raw, false, true);
    let (src, feats) = print_recipe(&m, &raw.tape);
    let ext = m.level == Level::Ext;
    let parser: &CooklangParser = if ext { &EXTENDED } else { &CANONICAL };
    let cfg = if ext { "extended" } else { "canonical" };
    classify(&m, &feats, st);
    if nontrivial(&m, &feats) {
        st.nontrivial(&src);
    }
    st.sample(|| json!({"parser": cfg, "source": src}));
    let res = match guard(|| parser.parse(&src)) {
        Ok(r) => r,
        Err(p) => vbail!("c01.panic", "{cfg} parser panicked: {p}; source {src:?}"),
    };
    let errors: Vec<String> = res.report().errors().map(|e| format!("{} {:?}", e.message, e.labels)).collect();
    vensure!(
        errors.is_empty(),
        "c01.error-on-well-formed",
        "{cfg} parser reports errors {errors:?} for source {src:?}"
    );
    let Some(out) = res.output() else {
        vbail!("c01.no-output", "{cfg} parser returned no output for source {src:?}");
    };
    // a paragraph written with single blanks between its words has single blanks (the image below
    // collapses runs of blanks, because other spellings of a paragraph keep theirs)
    // (steps read in text mode become paragraphs too and keep their own spacing: such recipes are left out)
    if feats.loose_text_lines == 0 && !m.blocks.iter().any(|b| matches!(b, BlockM::Mode(ModeM::Text))) {
        for s in &out.sections {
            for c in &s.content {
                if let cooklang::Content::Text(t) = c {
                    st.class("paragraph written with single blanks: compared exactly");
                    vensure!(
                        !t.trim().contains("  ") && !t.contains('\t'),
                        "c01.mismatch.paragraph-spacing",
                        "a text paragraph written with single blanks between its words reads {t:?}; {cfg} parser; source {src:?}"
                    );
                }
            }
        }
    }
    let actual = match actual_image(out) {
        Ok(a) => a,
        Err(e) => vbail!("c01.image", "{e}; source {src:?}"),
    };
    let expected = expected_image(&m, &ExpectOpts { inline: ext });
    if let Some((what, d)) = diff(&expected, &actual) {
        vbail!(format!("c01.mismatch.{what}"), "{d}; {cfg} parser; source {src:?}");
    }
    // the metadata entries are the intended ones for the metadata-only parse of the same text as well
    match guard(|| parser.parse_metadata(&src)) {
        Err(p) => vbail!("c01.panic", "{cfg} parser panicked in parse_metadata: {p}; source {src:?}"),
        Ok(res) => {
            let errors: Vec<String> = res.report().errors().map(|e| e.message.to_string()).collect();
            vensure!(errors.is_empty() && res.output().is_some(), "c01.error-on-well-formed", "{cfg} parser: parse_metadata reports errors {errors:?} for source {src:?}");
            let got: Vec<(serde_yaml::Value, serde_yaml::Value)> = res.output().unwrap().map.iter().map(|(k, v)| (k.clone(), v.clone())).collect();
            vensure!(
                got == actual.metadata,
                "c01.mismatch.metadata-only-parse",
                "the metadata-only parse returns {got:?}, the intended entries (and the full parse) are {:?}; {cfg} parser; source {src:?}",
                actual.metadata
            );
        }
    }
    Ok(())
}

pub fn run(tier: Tier) -> i32 {
    let mut run = Run::new("C01", tier);
    run.assume("generator preconditions (DESIGN 2.2): no newline inside a component; names do not start with ./ or ../; text values never look numeric; digits in plain text only as `number word` with a word that is not a unit key; inner separators of names/units/notes are ASCII spaces; a recipe has `>>` entries or front matter, not both");
    run.assume("step and paragraph text is compared after collapsing runs of blanks and trimming at the ends of the step (spacing, wrapping and comments legitimately change only that)");
    run.replay_regressions(&|_p, j| {
        let raw: RawRecipe = case_from(j)?;
        check_roundtrip(&raw, &mut Stats::default())
    });
    let rule = "abstract recipe (<= 10 blocks, <= 7 items per step) generated, printed with a random spelling tape (spacing, soft wraps, line/block comments, escapes, section styles, `>>` vs YAML front matter in block/flow style, blank/comment lines, CRLF) and parsed; oracle = reference resolver over the model; non-trivial = the source has a component with a quantity and at least one soft wrap, comment, escape or non-default spacing; distinct = distinct source text";
    let n = tier.pick(30_000, 3_000_000);
    if !run.failed() {
        run_prop(&mut run, "core-canonical", &format!("level Core under CooklangParser::canonical(): {rule}"), || raw_recipe(Some(false)), n, check_roundtrip);
    }
    if !run.failed() {
        run_prop(&mut run, "ext-extended", &format!("level Ext under CooklangParser::extended(): {rule}"), || raw_recipe(Some(true)), n, check_roundtrip);
    }
    run.finish()
}

pub fn replay(_part: &str, j: &serde_json::Value) -> Verdict {
    let raw: RawRecipe = case_from(j)?;
    check_roundtrip(&raw, &mut Stats::default())
}
