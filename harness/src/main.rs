//! Verification harness for cooklang-rs: one sub-command per property.
//!   verif <ID> quick|thorough
//!   verif <ID> --replay <file>

#![allow(clippy::all)]
#![allow(dead_code)]



use veriflib::common::*;
use veriflib::*;

fn usage() -> ! {
    eprintln!("usage: verif <ID> quick|thorough | verif <ID> --replay <file>");
    std::process::exit(2)
}

type ReplayFn = fn(&str, &serde_json::Value) -> Verdict;

fn dispatch(id: &str) -> Option<(fn(Tier) -> i32, ReplayFn)> {
    Some(match id {
        "C01" => (c01::run, c01::replay),
        "C02" => (c02::run, c02::replay),
        "C03" => (c03::run, c03::replay),
        "C04" => (c04::run, c04::replay),
        "C05" => (c05::run, c05::replay),
        "C06" => (c06::run, c06::replay),
        "C07" => (c07::run, c07::replay),
        "C08" => (c08::run, c08::replay),
        "C09" => (c09::run, c09::replay),
        "C10" => (c10::run, c10::replay),
        "C11" => (c11::run, c11::replay),
        "C12" => (c12::run, |_p, j| c12::replay(j)),
        "C13" => (c13::run, c13::replay),
        "C14" => (c14::run, c14::replay),
        "C15" => (c15::run, c15::replay),
        "C16" => (c16::run, c16::replay),
        "C17" => (c17::run, c17::replay),
        "C18" => (c18::run, c18::replay),
        "C19" => (c19::run, c19::replay),
        _ => return None,
    })
}

fn main() {
    install_panic_hook();
    let args: Vec<String> = std::env::args().collect();
    if args.len() < 3 {
        usage();
    }
    let id = args[1].to_uppercase();
    let Some((run_fn, replay_fn)) = dispatch(&id) else {
        eprintln!("[verif] unknown property {id}");
        std::process::exit(2);
    };
    *HANG_PROPERTY.lock().unwrap() = id.clone();
    HANG_IS_VIOLATION.store(id == "C03", std::sync::atomic::Ordering::Relaxed);
    if id == "C18" && args[2] == "--digest" {
        std::process::exit(c18::digest_main(&args));
    }
    if args[2] == "--big" {
        let oracle: big::BigOracle = match id.as_str() {
            "C03" => inv::c03_pipeline,
            "C04" => inv::c04_spans,
            "C05" => |i, e, _c, st| inv::c05_coverage(i, e, st),
            _ => usage(),
        };
        std::process::exit(big::child_main(oracle, &args));
    }
    match args[2].as_str() {
        "quick" => std::process::exit(run_fn(Tier::Quick)),
        "thorough" => std::process::exit(run_fn(Tier::Thorough)),
        "--replay" => {
            let Some(path) = args.get(3) else { usage() };
            let text = match std::fs::read_to_string(path) {
                Ok(t) => t,
                Err(e) => {
                    eprintln!("[verif] cannot read {path}: {e}");
                    std::process::exit(2);
                }
            };
            let j: serde_json::Value = match serde_json::from_str(&text) {
                Ok(j) => j,
                Err(e) => {
                    eprintln!("[verif] {path} is not JSON: {e}");
                    std::process::exit(2);
                }
            };
            let part = j.get("part").and_then(|p| p.as_str()).unwrap_or("").to_string();
            let case = j.get("case").cloned().unwrap_or(serde_json::Value::Null);
            // strict: known findings are not suppressed on replay
            match guard(|| replay_fn(&part, &case)) {
                Ok(Ok(())) => {
                    println!("[{id}] replay {path}: property holds on this case");
                    std::process::exit(0);
                }
                Ok(Err(v)) => {
                    println!("[{id}] replay {path}: {} :: {}", v.sig, truncate(&v.msg, 4000));
                    println!("VIOLATION property={id} replay={path}");
                    std::process::exit(1);
                }
                Err(p) => {
                    eprintln!("[verif] oracle panicked during replay: {p}");
                    std::process::exit(2);
                }
            }
        }
        _ => usage(),
    }
}
