//! C08 — scaling multiplies exactly the scalable amounts and nothing else.

use cooklang::quantity::{Number, ScalableValue, ScaledQuantity, Value};
use cooklang::scale::ScaleOutcome;
use cooklang::{ScalableRecipe, ScaledRecipe};
use proptest::prelude::*;
use serde::{Deserialize, Serialize};
use serde_json::json;

use crate::c01::EXTENDED;
use crate::common::*;
use crate::gen_recipe::*;
use crate::pipeline::BUNDLED;
use crate::print::*;
use crate::{vbail, vensure};

#[derive(Debug, Clone, Serialize, Deserialize)]
pub struct Case {
    pub raw: RawRecipe,
    pub factor_bits: u64,
    pub servings: u32,
}

/// (physical class, low, high): amount in base units for known units, else in the unit itself
fn amount(v: &Value, unit: Option<&str>) -> Option<(String, f64, f64)> {
    let (class, ratio, diff) = match unit.and_then(|u| BUNDLED.find_unit(u)) {
        Some(u) => (format!("{}", u.physical_quantity), u.ratio, u.difference),
        None => (format!("unit:{}", unit.unwrap_or("")), 1.0, 0.0),
    };
    let f = |n: &Number| (n.value() + diff) * ratio;
    match v {
        Value::Number(n) => Some((class, f(n), f(n))),
        Value::Range { start, end } => Some((class, f(start), f(end))),
        Value::Text(_) => None,
    }
}

fn strip(v: &mut serde_json::Value) {
    if let Some(o) = v.as_object_mut() {
        o.remove("data");
        for table in ["ingredients", "timers", "cookware"] {
            if let Some(arr) = o.get_mut(table).and_then(|t| t.as_array_mut()) {
                for c in arr {
                    if let Some(co) = c.as_object_mut() {
                        co.remove("quantity");
                    }
                }
            }
        }
    }
}

fn outcome_name(o: &ScaleOutcome) -> &'static str {
    match o {
        ScaleOutcome::Scaled => "Scaled",
        ScaleOutcome::Fixed => "Fixed",
        ScaleOutcome::NoQuantity => "NoQuantity",
        ScaleOutcome::Error(_) => "Error",
    }
}

fn check_quantity(what: &str, before: &Value, bunit: Option<&str>, after: &ScaledQuantity, factor: f64, src: &str) -> Verdict {
    match (before, after.value()) {
        (Value::Text(a), Value::Text(b)) => {
            vensure!(a == b && bunit == after.unit(), "c08.text-value-changed", "{what}: text quantity {a:?} {bunit:?} became {b:?} {:?}; source {src:?}", after.unit());
            return Ok(());
        }
        (Value::Text(_), _) | (_, Value::Text(_)) => vbail!("c08.value-kind-changed", "{what}: {before:?} became {:?}; source {src:?}", after.value()),
        (Value::Number(_), Value::Range { .. }) | (Value::Range { .. }, Value::Number(_)) => {
            vbail!("c08.value-kind-changed", "{what}: {before:?} became {:?}; source {src:?}", after.value())
        }
        _ => {}
    }
    let (c0, l0, h0) = amount(before, bunit).unwrap();
    let (c1, l1, h1) = amount(after.value(), after.unit()).unwrap();
    vensure!(c0 == c1, "c08.unit-class-changed", "{what}: {before:?} {bunit:?} became {after:?} (different physical quantity / unit); source {src:?}");
    let (el, eh) = (l0 * factor, h0 * factor);
    vensure!(
        approx_eq(l1, el, 1e-9, 0.0) && approx_eq(h1, eh, 1e-9, 0.0),
        if factor == 1.0 { "c08.fixed-amount-changed" } else { "c08.scaled-amount-wrong" },
        "{what}: {before:?} {bunit:?} x {factor} must be {el:e}..{eh:e} base units but {after:?} is {l1:e}..{h1:e}; source {src:?}"
    );
    Ok(())
}

fn inner(v: &ScalableValue) -> (&Value, bool) {
    match v {
        ScalableValue::Linear(v) => (v, true),
        ScalableValue::Fixed(v) => (v, false),
    }
}

fn check_scaled(before: &ScalableRecipe, after: &ScaledRecipe, factor: f64, src: &str, st: &mut Stats) -> Verdict {
    // everything but the quantities is identical
    let mut jb = serde_json::to_value(before).unwrap();
    let mut ja = serde_json::to_value(after).unwrap();
    strip(&mut jb);
    strip(&mut ja);
    vensure!(jb == ja, "c08.non-quantity-data-changed", "scaling changed something other than quantities\n before {jb}\n after {ja}\n source {src:?}");
    let Some(data) = after.scaled_data() else { vbail!("c08.no-scaled-data", "scale() result has no ScaledData; source {src:?}") };
    vensure!(
        data.ingredients.len() == after.ingredients.len() && data.cookware.len() == after.cookware.len() && data.timers.len() == after.timers.len(),
        "c08.outcome-length",
        "outcome vectors {}/{}/{} do not line up with the components {}/{}/{}; source {src:?}",
        data.ingredients.len(), data.cookware.len(), data.timers.len(), after.ingredients.len(), after.cookware.len(), after.timers.len()
    );
    vensure!(data.target.factor() == factor, "c08.target-factor", "target factor {} != {factor}", data.target.factor());
    vensure!(before.ingredients.len() == after.ingredients.len(), "c08.component-count", "ingredient count changed");
    for (i, (b, a)) in before.ingredients.iter().zip(&after.ingredients).enumerate() {
        let what = format!("ingredient {i} ({})", b.name);
        let o = outcome_name(&data.ingredients[i]);
        match (&b.quantity, &a.quantity) {
            (None, None) => vensure!(o == "NoQuantity", "c08.outcome-wrong", "{what} has no quantity but outcome {o}; source {src:?}"),
            (Some(bq), Some(aq)) => {
                let (v, linear) = inner(bq.value());
                let scalable = linear && !matches!(v, Value::Text(_));
                let expect_o = if scalable { "Scaled" } else { "Fixed" };
                vensure!(o == expect_o, "c08.outcome-wrong", "{what} quantity {:?}: outcome {o}, expected {expect_o}; source {src:?}", bq);
                check_quantity(&what, v, bq.unit(), aq, if scalable { factor } else { 1.0 }, src)?;
                st.class_if(scalable, "linear-quantity");
                st.class_if(!linear && !matches!(v, Value::Text(_)), "locked-quantity");
                st.class_if(bq.unit() != aq.unit(), "refitted-to-other-unit");
                st.class_if(matches!(aq.value(), Value::Number(Number::Fraction { .. })), "shown-as-fraction");
            }
            _ => vbail!("c08.quantity-presence-changed", "{what}: quantity {:?} became {:?}; source {src:?}", b.quantity, a.quantity),
        }
    }
    // the outcome of a group names what happened to its members (documented on GroupedIngredient::outcome):
    // an error if any member failed, else Fixed if any member was left as written, else the definition's own
    match guard(|| after.group_ingredients(&BUNDLED)) {
        Err(p) => vbail!("c08.panic", "group_ingredients panicked: {p}; source {src:?}"),
        Ok(groups) => {
            for g in &groups {
                let members: Vec<usize> = std::iter::once(g.index).chain(g.ingredient.relation.referenced_from().iter().copied()).collect();
                let names: Vec<&str> = members.iter().filter_map(|i| data.ingredients.get(*i)).map(outcome_name).collect();
                let expected = if names.contains(&"Error") {
                    "Error"
                } else if names.contains(&"Fixed") {
                    "Fixed"
                } else {
                    outcome_name(&data.ingredients[g.index])
                };
                let got = g.outcome.as_ref().map(outcome_name);
                vensure!(
                    got == Some(expected),
                    "c08.group-outcome",
                    "the group of ingredient {} ({}) reports outcome {got:?}; its members {members:?} have outcomes {names:?}, which makes {expected}; source {src:?}",
                    g.index, g.ingredient.name
                );
                st.class_if(members.len() > 1 && names.iter().any(|n| *n != names[0]), "group whose members have different outcomes");
            }
        }
    }
    for (i, (b, a)) in before.cookware.iter().zip(&after.cookware).enumerate() {
        let o = outcome_name(&data.cookware[i]);
        match (&b.quantity, &a.quantity) {
            (None, None) => vensure!(o == "NoQuantity", "c08.outcome-wrong", "cookware {i} without quantity has outcome {o}"),
            (Some(bq), Some(aq)) => {
                let (v, _) = inner(bq);
                vensure!(o == "Fixed", "c08.outcome-wrong", "cookware {i} outcome {o}, expected Fixed; source {src:?}");
                vensure!(format!("{v:?}") == format!("{aq:?}"), "c08.cookware-changed", "cookware {i} amount {v:?} became {aq:?}; source {src:?}");
            }
            _ => vbail!("c08.quantity-presence-changed", "cookware {i}"),
        }
    }
    for (i, (b, a)) in before.timers.iter().zip(&after.timers).enumerate() {
        let o = outcome_name(&data.timers[i]);
        match (&b.quantity, &a.quantity) {
            (None, None) => vensure!(o == "NoQuantity", "c08.outcome-wrong", "timer {i} without quantity has outcome {o}"),
            (Some(bq), Some(aq)) => {
                let (v, _) = inner(bq.value());
                vensure!(o == "Fixed", "c08.outcome-wrong", "timer {i} outcome {o}, expected Fixed; source {src:?}");
                check_quantity(&format!("timer {i}"), v, bq.unit(), aq, 1.0, src)?;
            }
            _ => vbail!("c08.quantity-presence-changed", "timer {i}"),
        }
    }
    vensure!(
        format!("{:?}", before.inline_quantities) == format!("{:?}", after.inline_quantities),
        "c08.inline-quantity-changed",
        "inline quantities {:?} became {:?}; source {src:?}",
        before.inline_quantities, after.inline_quantities
    );
    Ok(())
}

/// all extensions but TIMER_REQUIRES_TIME: timers may have a name only, and scaling must say so
static NO_TRT: std::sync::LazyLock<cooklang::CooklangParser> =
    std::sync::LazyLock::new(|| cooklang::CooklangParser::new(cooklang::Extensions::all() - cooklang::Extensions::TIMER_REQUIRES_TIME, BUNDLED.clone()));

/// no extension at all (bundled units, so that scaled amounts are still fitted): locks, text values and
/// plain numbers are core syntax
static NO_EXT: std::sync::LazyLock<cooklang::CooklangParser> = std::sync::LazyLock::new(|| cooklang::CooklangParser::new(cooklang::Extensions::empty(), BUNDLED.clone()));

pub fn oracle(c: &Case, st: &mut Stats) -> Verdict {
    // a fifth of the cases: timers without duration, parsed without TIMER_REQUIRES_TIME
    let lenient = c.raw.ext && c.servings % 5 == 0;
    let m = if lenient { build_ext_with_bare_timers(&c.raw) } else { build(&c.raw, false) };
    let (src, _) = print_recipe(&m, &c.raw.tape);
    let parser: &cooklang::CooklangParser = if !c.raw.ext {
        &NO_EXT
    } else if lenient {
        &NO_TRT
    } else {
        &EXTENDED
    };
    st.class_if(lenient, "parsed-without-TIMER_REQUIRES_TIME");
    st.class_if(!c.raw.ext, "core recipe parsed without extensions");
    let parse = || parser.parse(&src);
    let res = parse();
    if !res.is_valid() {
        st.exclude("not a valid recipe (C01's business)");
        return Ok(());
    }
    let before = res.into_output().unwrap();
    let factor = f64::from_bits(c.factor_bits);
    // which quantities are scalable is decided by the *written* recipe (model), not by what the
    // parser made of it: a lock that the parser drops must show up here
    let expected = crate::image::expected_image(&m, &crate::image::ExpectOpts { inline: true });
    if expected.ingredients.len() == before.ingredients.len() {
        for (i, (e, b)) in expected.ingredients.iter().zip(&before.ingredients).enumerate() {
            if let (Some(eq), Some(bq)) = (&e.qty, &b.quantity) {
                let parsed_linear = matches!(bq.value(), ScalableValue::Linear(_));
                vensure!(
                    eq.linear == parsed_linear,
                    "c08.scalability-differs-from-source",
                    "ingredient {i} ({}): the source says {} but the parsed quantity is {}; source {src:?}",
                    b.name,
                    if eq.linear { "scalable (numeric, no `=` lock)" } else { "fixed (text or `=` lock)" },
                    if parsed_linear { "Linear" } else { "Fixed" }
                );
            }
        }
    }
    if before.ingredients.iter().any(|i| matches!(i.quantity.as_ref().map(|q| q.value()), Some(ScalableValue::Linear(_)))) {
        st.nontrivial(&(src.as_str(), c.factor_bits));
    }
    st.sample(|| json!({"factor": factor, "servings": c.servings, "source": src}));
    // scale(f)
    let after = match guard(|| parse().into_output().unwrap().scale(factor, &BUNDLED)) {
        Ok(a) => a,
        Err(p) => vbail!("c08.panic.scale", "scale({factor}) panicked: {p}; source {src:?}"),
    };
    check_scaled(&before, &after, factor, &src, st)?;
    // default_scale: written values verbatim
    let d = parse().into_output().unwrap().default_scale();
    vensure!(d.is_default_scaled() && d.scaled_data().is_none(), "c08.default-scale-data", "default_scale() result claims to be scaled");
    for (i, (b, a)) in before.ingredients.iter().zip(&d.ingredients).enumerate() {
        let bq = b.quantity.as_ref().map(|q| (format!("{:?}", inner(q.value()).0), q.unit().map(String::from)));
        let aq = a.quantity.as_ref().map(|q| (format!("{:?}", q.value()), q.unit().map(String::from)));
        vensure!(bq == aq, "c08.default-scale-not-verbatim", "default_scale changed ingredient {i}: {bq:?} -> {aq:?}; source {src:?}");
    }
    for (i, (b, a)) in before.timers.iter().zip(&d.timers).enumerate() {
        let bq = b.quantity.as_ref().map(|q| (format!("{:?}", inner(q.value()).0), q.unit().map(String::from)));
        let aq = a.quantity.as_ref().map(|q| (format!("{:?}", q.value()), q.unit().map(String::from)));
        vensure!(bq == aq, "c08.default-scale-not-verbatim", "default_scale changed timer {i}: {bq:?} -> {aq:?}; source {src:?}");
    }
    for (i, (b, a)) in before.cookware.iter().zip(&d.cookware).enumerate() {
        let bq = b.quantity.as_ref().map(|q| format!("{:?}", inner(q).0));
        let aq = a.quantity.as_ref().map(|q| format!("{q:?}"));
        vensure!(bq == aq, "c08.default-scale-not-verbatim", "default_scale changed cookware {i}: {bq:?} -> {aq:?}; source {src:?}");
    }
    {
        let mut jb = serde_json::to_value(&before).unwrap();
        let mut jd = serde_json::to_value(&d).unwrap();
        strip(&mut jb);
        strip(&mut jd);
        vensure!(jb == jd, "c08.non-quantity-data-changed", "default_scale changed something other than quantities; source {src:?}");
    }
    // scale_to_servings(n) == scale(n / first declared servings)
    let declared: Option<Vec<u32>> = before.servings().map(|s| s.to_vec());
    // the base of scale_to_servings is the declared servings whatever a metadata validator says about *other*
    // entries: parsed after an entry whose standard checks a validator switches off, the servings are the same
    {
        let src2 = if m.front.is_some() { src.replacen("---\n", "---\nx-first: 1\n", 1) } else { format!(">> x-first: 1\n{src}") };
        let opts = cooklang::ParseOptions {
            recipe_ref_check: None,
            metadata_validator: Some(Box::new(|k: &serde_yaml::Value, _v: &serde_yaml::Value, o: &mut cooklang::analysis::CheckOptions| {
                if k.as_str() == Some("x-first") {
                    o.run_std_checks(false);
                }
                cooklang::analysis::CheckResult::Ok
            })),
        };
        if let Ok(r2) = guard(|| parser.parse_with_options(&src2, opts)) {
            if let Some(o2) = r2.output() {
                let d2: Option<Vec<u32>> = o2.servings().map(|s| s.to_vec());
                vensure!(d2 == declared, "c08.servings-base-wrong", "declared servings {declared:?}, but {d2:?} when the recipe is parsed after an entry whose standard checks a validator switched off; source {src2:?}");
            }
        }
    }
    let base = declared.as_ref().and_then(|s| s.first().copied()).unwrap_or(1);
    st.class_if(declared.is_some(), "declares-servings");
    if base > 0 {
        let by_servings = match guard(|| parse().into_output().unwrap().scale_to_servings(c.servings, &BUNDLED)) {
            Ok(a) => a,
            Err(p) => vbail!("c08.panic.scale_to_servings", "scale_to_servings({}) panicked: {p}; source {src:?}", c.servings),
        };
        let f2 = c.servings as f64 / base as f64;
        let by_factor = parse().into_output().unwrap().scale(f2, &BUNDLED);
        let (a, b) = (serde_json::to_string(&by_servings).unwrap(), serde_json::to_string(&by_factor).unwrap());
        vensure!(
            a == b,
            "c08.servings-scaling-differs",
            "scale_to_servings({}) differs from scale({} / {base}) [declared servings {declared:?}]\n {a}\n {b}\n source {src:?}",
            c.servings, c.servings
        );
        // and independently: it scales by n / first written servings value of the model
        let written_first = m_first_servings(&m);
        if let Some(w) = written_first {
            vensure!(w == base, "c08.servings-base-wrong", "first declared servings in the source is {w} but the recipe reports {declared:?}; source {src:?}");
        }
        check_scaled(&before, &by_servings, f2, &src, st)?;
    }
    Ok(())
}

/// first servings number as written in the model's metadata (independent of the parser)
fn m_first_servings(m: &crate::model::RecipeM) -> Option<u32> {
    use crate::model::*;
    if let Some(front) = &m.front {
        for (k, v) in front {
            if is_servings_key(k) {
                return match v {
                    YamlM::Int(i) => Some(*i as u32),
                    YamlM::List(l) => match l.first() {
                        Some(YamlM::Int(i)) => Some(*i as u32),
                        Some(YamlM::Str(s)) => s.split(' ').next().and_then(|n| n.parse().ok()),
                        _ => None,
                    },
                    _ => None,
                };
            }
        }
    }
    for b in &m.blocks {
        if let BlockM::Meta(k, v) = b {
            if is_servings_key(k) {
                return v.split('|').next().and_then(|s| s.trim().split(' ').next()?.parse().ok());
            }
        }
    }
    None
}

pub fn run(tier: Tier) -> i32 {
    let mut run = Run::new("C08", tier);
    run.assume("amounts are compared in base units with the bundled converter's own ratios (relative 1e-9, no absolute slack: a tiny product must not collapse to zero); unknown or missing units are compared in the written unit");
    run.assume("factors are finite and positive (1e-3..1e3, the special values 1, 2, 1/2, 1/3, 3 and the extremes 1e-250..1e12, chosen so that every product stays a normal float); serving counts 1..=64; ingredient units are never temperatures");
    run.replay_regressions(&|_p, j| oracle(&case_from(j)?, &mut Stats::default()));
    if !run.failed() {
        run_prop(
            &mut run,
            "scale",
            "generated Ext recipes (all value kinds, locks, known/unknown/missing units, references, timers, cookware, inline quantities, declared servings) scaled by a random factor, default-scaled, and scaled to n servings; oracle: per-component physical amounts, outcome table, verbatim default scaling, JSON equality of scale_to_servings(n) with scale(n/first servings); non-trivial = at least one linear ingredient quantity; distinct = distinct (source, factor)",
            || {
                let f = prop_oneof![
                    3 => (1e-3f64..1e3),
                    2 => (0.1f64..10.0),
                    1 => proptest::sample::select(vec![1.0, 2.0, 0.5, 1.0 / 3.0, 3.0]),
                    1 => proptest::sample::select(vec![1e-7, 1e-10, 1e-30, 1e-100, 1e-250, 1e6, 1e12, 5e-4]),
                ];
                (raw_recipe(Some(true)), f, 1u32..=64).prop_map(|(mut raw, f, servings)| {
                    // declare servings often
                    if servings % 3 != 0 {
                        let k = [0u8, 1, 8, 9, 10, 11][(servings % 6) as usize];
                        raw.front_std.insert(0, k);
                        raw.blocks.insert(0, RawBlock::StdMeta(k));
                    }
                    // a seventh of the cases: a Core-level recipe, parsed without extensions
                    if servings % 7 == 3 {
                        raw.ext = false;
                    }
                    Case { raw, factor_bits: f.to_bits(), servings }
                })
            },
            tier.pick(25_000, 2_500_000),
            oracle,
        );
    }
    run.finish()
}

pub fn replay(_p: &str, j: &serde_json::Value) -> Verdict {
    oracle(&case_from(j)?, &mut Stats::default())
}
