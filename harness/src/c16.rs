//! C16 — converters built from configuration layers are consistent or rejected.

use std::collections::HashMap;

use cooklang::convert::{ConverterBuilder, PhysicalQuantity, System, UnitsFile};
use cooklang::quantity::{Number, Quantity, ScaledQuantity, Value};
use cooklang::Converter;
use proptest::prelude::*;
use serde::{Deserialize, Serialize};
use serde_json::json;

use crate::common::*;
use crate::{vbail, vensure};

const QUANTITIES: [&str; 5] = ["volume", "mass", "length", "temperature", "time"];
const PREFIXES: [(&str, f64); 6] = [("kilo", 1e3), ("hecto", 1e2), ("deca", 1e1), ("deci", 1e-1), ("centi", 1e-2), ("milli", 1e-3)];
const WORDS: [&str; 14] = ["a", "b", "c", "d", "e", "f", "g", "kb", "x y", "é", "ml", "zz", "", " "];

#[derive(Debug, Clone, Serialize, Deserialize, PartialEq)]
pub struct UnitM {
    pub names: Vec<String>,
    pub symbols: Vec<String>,
    pub aliases: Vec<String>,
    pub ratio: f64,
    pub difference: f64,
    pub expand_si: bool,
}

#[derive(Debug, Clone, Serialize, Deserialize, PartialEq)]
pub enum BestM {
    Unified(Vec<String>),
    BySystem { metric: Vec<String>, imperial: Vec<String> },
}

#[derive(Debug, Clone, Serialize, Deserialize, PartialEq)]
pub enum UnitsM {
    Unified(Vec<UnitM>),
    BySystem { metric: Vec<UnitM>, imperial: Vec<UnitM>, unspecified: Vec<UnitM> },
}

#[derive(Debug, Clone, Serialize, Deserialize, PartialEq)]
pub struct GroupM {
    pub quantity: u8,
    pub best: Option<BestM>,
    pub units: Option<UnitsM>,
}

#[derive(Debug, Clone, Serialize, Deserialize, PartialEq)]
pub struct SiM {
    pub prefixes: Option<Vec<Vec<String>>>,
    pub symbol_prefixes: Option<Vec<Vec<String>>>,
    /// 0 before, 1 after, 2 override, 3 absent (= before)
    pub precedence: u8,
}

#[derive(Debug, Clone, Serialize, Deserialize, PartialEq, Default)]
pub struct ExtEntryM {
    pub ratio: Option<f64>,
    pub difference: Option<f64>,
    pub names: Option<Vec<String>>,
    pub symbols: Option<Vec<String>>,
    pub aliases: Option<Vec<String>>,
}

#[derive(Debug, Clone, Serialize, Deserialize, PartialEq)]
pub struct ExtendM {
    pub precedence: u8,
    pub units: Vec<(String, ExtEntryM)>,
}

#[derive(Debug, Clone, Serialize, Deserialize, PartialEq)]
pub struct FracM {
    pub all: Option<bool>,
    pub metric: Option<bool>,
    pub imperial: Option<(u8, u8)>,
    pub quantity: Vec<(u8, bool)>,
    pub unit: Vec<(String, u8)>,
    /// accuracy (index into ACCURACIES) named at the base level (then `all` is a table) and by the unit entries
    #[serde(default)]
    pub all_accuracy: Option<u8>,
    #[serde(default)]
    pub unit_accuracy: Option<u8>,
    /// accuracy named by the `imperial` table
    #[serde(default)]
    pub imperial_accuracy: Option<u8>,
}

const ACCURACIES: [f32; 4] = [0.01, 0.05, 0.12, 0.3];

#[derive(Debug, Clone, Serialize, Deserialize, PartialEq)]
pub struct FileM {
    pub default_system: Option<bool>,
    pub si: Option<SiM>,
    pub fractions: Option<FracM>,
    pub extend: Option<ExtendM>,
    pub groups: Vec<GroupM>,
}

// ---------------------------------------------------------------------------
// TOML rendering (the documented way to write a units file)

fn tstr(s: &str) -> String {
    format!("{:?}", s).replace("\\u{e9}", "é")
}
fn tlist(v: &[String]) -> String {
    format!("[{}]", v.iter().map(|s| tstr(s)).collect::<Vec<_>>().join(", "))
}
fn tnum(f: f64) -> String {
    let s = format!("{f:?}");
    s
}
fn prec(p: u8) -> Option<&'static str> {
    match p % 4 {
        0 => Some("before"),
        1 => Some("after"),
        2 => Some("override"),
        _ => None,
    }
}
/// the file format accepts `name` / `symbol` / `alias` for `names` / `symbols` / `aliases`: which spelling a
/// list gets is a function of its content (a third of the lists get the singular)
fn key_spelling(plural: &'static str, v: &[String]) -> &'static str {
    if (v.len() + v.first().map_or(0, |s| s.len())) % 3 == 0 {
        &plural[..plural.len() - if plural == "aliases" { 2 } else { 1 }]
    } else {
        plural
    }
}
fn tunit(u: &UnitM) -> String {
    let mut s = format!("{{ {} = {}, {} = {}", key_spelling("names", &u.names), tlist(&u.names), key_spelling("symbols", &u.symbols), tlist(&u.symbols));
    if !u.aliases.is_empty() {
        s.push_str(&format!(", {} = {}", key_spelling("aliases", &u.aliases), tlist(&u.aliases)));
    }
    s.push_str(&format!(", ratio = {}", tnum(u.ratio)));
    if u.difference != 0.0 {
        s.push_str(&format!(", difference = {}", tnum(u.difference)));
    }
    if u.expand_si {
        s.push_str(", expand_si = true");
    }
    s.push_str(" }");
    s
}
fn tunits(v: &[UnitM]) -> String {
    format!("[{}]", v.iter().map(tunit).collect::<Vec<_>>().join(", "))
}

pub fn to_toml(f: &FileM) -> String {
    let mut s = String::new();
    if let Some(d) = f.default_system {
        s.push_str(&format!("default_system = {}\n", if d { "\"imperial\"" } else { "\"metric\"" }));
    }
    if let Some(si) = &f.si {
        s.push_str("[si]\n");
        if let Some(p) = prec(si.precedence) {
            s.push_str(&format!("precedence = {p:?}\n"));
        }
        for (name, table) in [("prefixes", &si.prefixes), ("symbol_prefixes", &si.symbol_prefixes)] {
            if let Some(t) = table {
                s.push_str(&format!("[si.{name}]\n"));
                for (i, (p, _)) in PREFIXES.iter().enumerate() {
                    s.push_str(&format!("{p} = {}\n", tlist(&t[i])));
                }
            }
        }
    }
    if let Some(fr) = &f.fractions {
        s.push_str("[fractions]\n");
        match (fr.all, fr.all_accuracy) {
            (b, Some(a)) => s.push_str(&format!("all = {{ {}accuracy = {} }}\n", b.map_or(String::new(), |b| format!("enabled = {b}, ")), ACCURACIES[a as usize % 4])),
            (Some(b), None) => s.push_str(&format!("all = {b}\n")),
            (None, None) => {}
        }
        if let Some(b) = fr.metric {
            s.push_str(&format!("metric = {b}\n"));
        }
        if let Some((d, w)) = fr.imperial {
            let acc = fr.imperial_accuracy.map_or(String::new(), |a| format!(", accuracy = {}", ACCURACIES[a as usize % 4]));
            s.push_str(&format!("imperial = {{ enabled = true, max_denominator = {d}, max_whole = {w}{acc} }}\n"));
        }
        if !fr.quantity.is_empty() {
            s.push_str("[fractions.quantity]\n");
            let mut seen = vec![];
            for (q, b) in &fr.quantity {
                let q = QUANTITIES[*q as usize % 5];
                if seen.contains(&q) {
                    continue;
                }
                seen.push(q);
                s.push_str(&format!("{q} = {b}\n"));
            }
        }
        if !fr.unit.is_empty() {
            s.push_str("[fractions.unit]\n");
            let mut seen: Vec<&String> = vec![];
            for (k, d) in &fr.unit {
                if seen.contains(&k) {
                    continue;
                }
                seen.push(k);
                let acc = fr.unit_accuracy.map_or(String::new(), |a| format!(", accuracy = {}", ACCURACIES[a as usize % 4]));
                s.push_str(&format!("{} = {{ max_denominator = {d}{acc} }}\n", tstr(k)));
            }
        }
    }
    if let Some(e) = &f.extend {
        s.push_str("[extend]\n");
        if let Some(p) = prec(e.precedence) {
            s.push_str(&format!("precedence = {p:?}\n"));
        }
        s.push_str("[extend.units]\n");
        let mut seen: Vec<&String> = vec![];
        for (k, en) in &e.units {
            if seen.contains(&k) {
                continue;
            }
            seen.push(k);
            let mut parts = vec![];
            if let Some(r) = en.ratio {
                parts.push(format!("ratio = {}", tnum(r)));
            }
            if let Some(r) = en.difference {
                parts.push(format!("difference = {}", tnum(r)));
            }
            if let Some(v) = &en.names {
                parts.push(format!("{} = {}", key_spelling("names", v), tlist(v)));
            }
            if let Some(v) = &en.symbols {
                parts.push(format!("{} = {}", key_spelling("symbols", v), tlist(v)));
            }
            if let Some(v) = &en.aliases {
                parts.push(format!("{} = {}", key_spelling("aliases", v), tlist(v)));
            }
            s.push_str(&format!("{} = {{ {} }}\n", tstr(k), parts.join(", ")));
        }
    }
    for g in &f.groups {
        s.push_str("[[quantity]]\n");
        s.push_str(&format!("quantity = {:?}\n", QUANTITIES[g.quantity as usize % 5]));
        match &g.best {
            Some(BestM::Unified(v)) => s.push_str(&format!("best = {}\n", tlist(v))),
            Some(BestM::BySystem { metric, imperial }) => s.push_str(&format!("best = {{ metric = {}, imperial = {} }}\n", tlist(metric), tlist(imperial))),
            None => {}
        }
        match &g.units {
            Some(UnitsM::Unified(v)) => s.push_str(&format!("units = {}\n", tunits(v))),
            Some(UnitsM::BySystem { metric, imperial, unspecified }) => {
                s.push_str(&format!("[quantity.units]\nmetric = {}\nimperial = {}\nunspecified = {}\n", tunits(metric), tunits(imperial), tunits(unspecified)));
            }
            None => {}
        }
    }
    s
}

// ---------------------------------------------------------------------------
// reference model of the layering

#[derive(Debug, Clone, PartialEq)]
struct RUnit {
    names: Vec<String>,
    symbols: Vec<String>,
    aliases: Vec<String>,
    ratio: f64,
    difference: f64,
    quantity: usize,
    system: Option<bool>, // Some(true) = imperial
    expand_si: bool,
    expanded: Option<Vec<usize>>,
    is_expanded: bool,
}

impl RUnit {
    fn keys(&self) -> Vec<String> {
        self.names.iter().chain(&self.symbols).chain(&self.aliases).cloned().collect()
    }
}

#[derive(Debug)]
enum RefOutcome {
    /// unit table, best lists, effective fraction settings per unit (None = depends on table order)
    Accept(Vec<RUnit>, Vec<Option<BestM>>, Vec<Option<(bool, u8, u32, f32)>>),
    Reject(&'static str),
    /// the outcome may depend on the iteration order of an extend table: only generic checks
    Unsure,
}

fn join(target: &mut Vec<String>, src: Vec<String>, p: u8) {
    match p % 4 {
        1 => target.extend(src),
        2 => *target = src,
        _ => {
            let mut s = src;
            s.append(target);
            *target = s;
        }
    }
}

fn index_add(index: &mut HashMap<String, usize>, u: &RUnit, id: usize) -> Result<(), &'static str> {
    let keys = u.keys();
    for k in &keys {
        if k.trim().is_empty() {
            return Err("blank key");
        }
        if index.insert(k.clone(), id).is_some() {
            return Err("duplicate key");
        }
    }
    if keys.is_empty() {
        return Err("unit without keys");
    }
    Ok(())
}

fn expand(u: &RUnit, prefixes: &Option<Vec<Vec<String>>>, symbol_prefixes: &Option<Vec<Vec<String>>>) -> Result<Vec<RUnit>, &'static str> {
    let (Some(p), Some(sp)) = (prefixes, symbol_prefixes) else {
        return Err("expand_si without prefixes");
    };
    Ok((0..6)
        .map(|i| RUnit {
            names: p[i].iter().flat_map(|pre| u.names.iter().map(move |n| format!("{pre}{n}"))).collect(),
            symbols: sp[i].iter().flat_map(|pre| u.symbols.iter().map(move |n| format!("{pre}{n}"))).collect(),
            aliases: vec![],
            ratio: u.ratio * PREFIXES[i].1,
            // the offset is expressed in the unit itself: 1000 milli-degrees are 1 degree
            difference: u.difference / PREFIXES[i].1,
            quantity: u.quantity,
            system: u.system,
            expand_si: false,
            expanded: None,
            is_expanded: true,
        })
        .collect())
}

fn reference(files: &[FileM]) -> RefOutcome {
    let mut units: Vec<RUnit> = vec![];
    let mut index: HashMap<String, usize> = HashMap::new();
    let mut best: Vec<Option<BestM>> = vec![None; 5];
    let mut prefixes: Option<Vec<Vec<String>>> = None;
    let mut symbol_prefixes: Option<Vec<Vec<String>>> = None;
    let mut extends: Vec<&ExtendM> = vec![];
    let mut fractions: Vec<&FracM> = vec![];
    for f in files {
        for g in &f.groups {
            let q = g.quantity as usize % 5;
            let lists: Vec<(&Vec<UnitM>, Option<bool>)> = match &g.units {
                Some(UnitsM::Unified(v)) => vec![(v, None)],
                Some(UnitsM::BySystem { metric, imperial, unspecified }) => vec![(metric, Some(false)), (imperial, Some(true)), (unspecified, None)],
                None => vec![],
            };
            for (list, system) in lists {
                for u in list {
                    let ru = RUnit {
                        names: u.names.clone(),
                        symbols: u.symbols.clone(),
                        aliases: u.aliases.clone(),
                        ratio: u.ratio,
                        difference: u.difference,
                        quantity: q,
                        system,
                        expand_si: u.expand_si,
                        expanded: None,
                        is_expanded: false,
                    };
                    if let Err(e) = index_add(&mut index, &ru, units.len()) {
                        return RefOutcome::Reject(e);
                    }
                    units.push(ru);
                }
            }
            if let Some(b) = &g.best {
                let empty = match b {
                    BestM::Unified(v) => v.is_empty(),
                    BestM::BySystem { metric, imperial } => metric.is_empty() || imperial.is_empty(),
                };
                if empty {
                    return RefOutcome::Reject("empty best list");
                }
                best[q] = Some(b.clone());
            }
        }
        if let Some(e) = &f.extend {
            extends.push(e);
        }
        if let Some(si) = &f.si {
            let joinp = |a: &mut Option<Vec<Vec<String>>>, b: &Option<Vec<Vec<String>>>| match (a.take(), b) {
                (None, None) => None,
                (Some(v), None) => Some(v),
                (None, Some(v)) => Some(v.clone()),
                (Some(mut a), Some(b)) => {
                    match si.precedence % 4 {
                        1 => {
                            for i in 0..6 {
                                a[i].extend(b[i].clone());
                            }
                            Some(a)
                        }
                        2 => Some(b.clone()),
                        _ => {
                            let mut nb = b.clone();
                            for i in 0..6 {
                                nb[i].extend(a[i].clone());
                            }
                            Some(nb)
                        }
                    }
                }
            };
            prefixes = joinp(&mut prefixes, &si.prefixes);
            symbol_prefixes = joinp(&mut symbol_prefixes, &si.symbol_prefixes);
        }
        if let Some(fr) = &f.fractions {
            fractions.push(fr);
        }
    }
    // finish: SI expansion
    let n0 = units.len();
    for id in 0..n0 {
        if units[id].expand_si {
            let new = match expand(&units[id], &prefixes, &symbol_prefixes) {
                Ok(n) => n,
                Err(e) => return RefOutcome::Reject(e),
            };
            let mut ids = vec![];
            for nu in new {
                if let Err(e) = index_add(&mut index, &nu, units.len()) {
                    return RefOutcome::Reject(e);
                }
                ids.push(units.len());
                units.push(nu);
            }
            units[id].expanded = Some(ids);
        }
    }
    // extends
    for e in extends {
        let mut seen_keys: Vec<&String> = vec![];
        let entries: Vec<&(String, ExtEntryM)> = e.units.iter().filter(|(k, _)| if seen_keys.contains(&k) { false } else { seen_keys.push(k); true }).collect();
        // resolution happens against the index before any update of this group
        let mut targets = vec![];
        let mut certain_reject = None;
        for (k, en) in &entries {
            match index.get(k.as_str()) {
                None => {
                    certain_reject = Some("unknown key in extend");
                }
                Some(&id) => {
                    if targets.iter().any(|(t, _)| *t == id) {
                        certain_reject = certain_reject.or(Some("two extend keys for one unit"));
                    }
                    if units[id].is_expanded && (en.ratio.is_some() || en.difference.is_some() || en.names.is_some() || en.symbols.is_some()) {
                        certain_reject = certain_reject.or(Some("edit of an expanded unit"));
                    }
                    targets.push((id, en));
                }
            }
        }
        if let Some(r) = certain_reject {
            // which of several errors is reported depends on table order, but it is an error
            return RefOutcome::Reject(r);
        }
        if targets.len() > 1 {
            // updates are applied one after the other in table order: interactions possible
            return RefOutcome::Unsure;
        }
        for (id, en) in targets {
            // remove the unit's and its expansions' keys
            let mut to_remove: Vec<usize> = vec![id];
            if let Some(ex) = &units[id].expanded {
                to_remove.extend(ex.iter().copied());
            }
            for r in &to_remove {
                for k in units[*r].keys() {
                    index.remove(&k);
                }
            }
            if let Some(r) = en.ratio {
                units[id].ratio = r;
            }
            if let Some(d) = en.difference {
                units[id].difference = d;
            }
            if let Some(v) = &en.names {
                join(&mut units[id].names, v.clone(), e.precedence);
            }
            if let Some(v) = &en.symbols {
                join(&mut units[id].symbols, v.clone(), e.precedence);
            }
            if let Some(v) = &en.aliases {
                join(&mut units[id].aliases, v.clone(), e.precedence);
            }
            if units[id].expand_si {
                let new = match expand(&units[id], &prefixes, &symbol_prefixes) {
                    Ok(n) => n,
                    Err(e) => return RefOutcome::Reject(e),
                };
                let ids = units[id].expanded.clone().unwrap();
                for (nu, eid) in new.into_iter().zip(ids) {
                    let old_aliases = units[eid].aliases.clone();
                    units[eid] = nu;
                    units[eid].aliases = old_aliases;
                    let u = units[eid].clone();
                    if let Err(e) = index_add(&mut index, &u, eid) {
                        return RefOutcome::Reject(e);
                    }
                }
            }
            let u = units[id].clone();
            if let Err(e) = index_add(&mut index, &u, id) {
                return RefOutcome::Reject(e);
            }
        }
    }
    // best lists
    for q in 0..5 {
        let Some(b) = &best[q] else {
            return RefOutcome::Reject("quantity without best units");
        };
        let lists: Vec<&Vec<String>> = match b {
            BestM::Unified(v) => vec![v],
            BestM::BySystem { metric, imperial } => vec![metric, imperial],
        };
        for l in lists {
            for k in l {
                match index.get(k.as_str()) {
                    None => return RefOutcome::Reject("unknown unit in best list"),
                    Some(&id) => {
                        if units[id].quantity != q {
                            return RefOutcome::Reject("best list names a unit of another physical quantity");
                        }
                    }
                }
            }
        }
    }
    for fr in &fractions {
        for (k, _) in &fr.unit {
            if !index.contains_key(k.as_str()) {
                return RefOutcome::Reject("unknown unit in fractions");
            }
        }
    }
    let fracs = frac_reference(&fractions, &units, &index);
    RefOutcome::Accept(units, best, fracs)
}

/// one layer of fraction settings: unset fields fall through to the next more general level
#[derive(Debug, Clone, Copy, Default, PartialEq)]
struct RCfg {
    enabled: Option<bool>,
    den: Option<u8>,
    whole: Option<u32>,
    acc: Option<f32>,
}

impl RCfg {
    fn merge(self, o: RCfg) -> RCfg {
        RCfg { enabled: self.enabled.or(o.enabled), den: self.den.or(o.den), whole: self.whole.or(o.whole), acc: self.acc.or(o.acc) }
    }
    fn define(self) -> (bool, u8, u32, f32) {
        (self.enabled.unwrap_or(false), self.den.unwrap_or(4).clamp(1, 16), self.whole.unwrap_or(u32::MAX), self.acc.unwrap_or(0.05))
    }
}

/// Effective (enabled, max denominator, max whole) per unit, as documented in the units file format:
/// the general levels (all, per system, per quantity) of a later layer replace those of an earlier one;
/// a per-unit entry fills the fields it leaves unset from the *final* quantity, system and base levels
/// (in that order); a unit without an entry uses the first of quantity, system, base that is set.
fn frac_reference(fractions: &[&FracM], units: &[RUnit], index: &HashMap<String, usize>) -> Vec<Option<(bool, u8, u32, f32)>> {
    let toggle = |b: bool| RCfg { enabled: Some(b), ..Default::default() };
    let mut all: Option<RCfg> = None;
    let mut metric: Option<RCfg> = None;
    let mut imperial: Option<RCfg> = None;
    let mut quantity: HashMap<usize, RCfg> = HashMap::new();
    for fr in fractions {
        let acc = |a: Option<u8>| a.map(|a| ACCURACIES[a as usize % 4]);
        let this_all = match (fr.all, fr.all_accuracy) {
            (None, None) => None,
            (b, a) => Some(RCfg { enabled: b, acc: acc(a), ..Default::default() }),
        };
        all = this_all.or(all);
        metric = fr.metric.map(toggle).or(metric);
        imperial = fr.imperial.map(|(d, w)| RCfg { enabled: Some(true), den: Some(d), whole: Some(w as u32), acc: acc(fr.imperial_accuracy) }).or(imperial);
        let mut seen = vec![];
        for (q, b) in &fr.quantity {
            let q = *q as usize % 5;
            if seen.contains(&q) {
                continue;
            }
            seen.push(q);
            quantity.insert(q, toggle(*b));
        }
    }
    let general = |u: &RUnit| -> Vec<RCfg> {
        [quantity.get(&u.quantity).copied(), u.system.and_then(|imp| if imp { imperial } else { metric }), all].into_iter().flatten().collect()
    };
    let mut unit: HashMap<usize, Option<RCfg>> = HashMap::new();
    for fr in fractions {
        let mut seen: Vec<&String> = vec![];
        let mut here: HashMap<usize, u8> = HashMap::new();
        for (k, d) in &fr.unit {
            if seen.contains(&k) {
                continue;
            }
            seen.push(k);
            let id = index[k.as_str()];
            match here.get(&id) {
                // two keys of one table name the same unit with different settings: table order decides
                Some(d0) if d0 != d => {
                    unit.insert(id, None);
                    continue;
                }
                Some(_) => continue,
                None => {}
            }
            here.insert(id, *d);
            let mut cfg = RCfg { den: Some(*d), acc: fr.unit_accuracy.map(|a| ACCURACIES[a as usize % 4]), ..Default::default() };
            if let Some(inherit) = general(&units[id]).into_iter().reduce(|a, e| a.merge(e)) {
                cfg = cfg.merge(inherit);
            }
            unit.insert(id, Some(cfg));
        }
    }
    units
        .iter()
        .enumerate()
        .map(|(id, u)| match unit.get(&id) {
            Some(None) => None,
            Some(Some(c)) => Some(c.define()),
            None => Some(general(u).first().copied().unwrap_or_default().define()),
        })
        .collect()
}

// ---------------------------------------------------------------------------
// oracle

fn pq(i: usize) -> PhysicalQuantity {
    [PhysicalQuantity::Volume, PhysicalQuantity::Mass, PhysicalQuantity::Length, PhysicalQuantity::Temperature, PhysicalQuantity::Time][i]
}

fn generic_consistency(c: &Converter) -> Verdict {
    let mut owner: HashMap<String, usize> = HashMap::new();
    for (i, u) in c.all_units().enumerate() {
        let keys: Vec<&std::sync::Arc<str>> = u.names.iter().chain(&u.symbols).chain(&u.aliases).collect();
        vensure!(!keys.is_empty(), "c16.unit-without-keys", "unit #{i} has no name, symbol or alias");
        for k in keys {
            vensure!(!k.trim().is_empty(), "c16.blank-key", "unit #{i} has a blank key {k:?}");
            if let Some(o) = owner.insert(k.to_string(), i) {
                vbail!("c16.key-shared", "key {k:?} is declared by unit #{o} and unit #{i}");
            }
            let Some(found) = c.find_unit(k) else {
                vbail!("c16.declared-key-unresolved", "key {k:?} of unit #{i} ({}) does not resolve", u);
            };
            vensure!(
                std::ptr::eq(&*found, u),
                "c16.key-resolves-to-other-unit",
                "key {k:?} of unit #{i} resolves to another unit ({found})"
            );
        }
        vensure!(u.ratio.is_finite() && u.ratio > 0.0, "c16.bad-ratio", "unit #{i} has ratio {}", u.ratio);
        // is_best_unit says what best_units lists
        let listed = u.system.is_some_and(|s| c.best_units(u.physical_quantity, Some(s)).iter().any(|b| std::ptr::eq(&**b, u)));
        match guard(|| c.is_best_unit(u)) {
            Ok(b) => vensure!(b == listed, "c16.is-best-unit", "is_best_unit({u}) = {b} but best_units({}, {:?}) {} it", u.physical_quantity, u.system, if listed { "lists" } else { "does not list" }),
            Err(p) => vbail!("c16.panic.is_best_unit", "is_best_unit({u}) panicked: {p}"),
        }
    }
    vensure!(c.unit_count() == c.all_units().count(), "c16.unit-count", "unit_count() = {} but all_units() yields {}", c.unit_count(), c.all_units().count());
    for q in 0..5 {
        for sys in [None, Some(System::Metric), Some(System::Imperial)] {
            let b = match guard(|| c.best_units(pq(q), sys)) {
                Ok(b) => b,
                Err(p) => vbail!("c16.panic.best_units", "best_units panicked: {p}"),
            };
            if sys.is_some() {
                vensure!(!b.is_empty(), "c16.empty-best", "best units of {} for {sys:?} are empty", QUANTITIES[q]);
                for w in b.windows(2) {
                    vensure!(w[0].ratio <= w[1].ratio, "c16.best-not-sorted", "best units of {} {sys:?} not in increasing size: {} then {}", QUANTITIES[q], w[0], w[1]);
                }
            }
            for u in &b {
                vensure!(u.physical_quantity == pq(q), "c16.best-foreign-quantity", "best list of {} contains {} which is {}", QUANTITIES[q], u, u.physical_quantity);
            }
        }
    }
    Ok(())
}

pub fn oracle(files: &[FileM], st: &mut Stats) -> Verdict {
    let mut builder = ConverterBuilder::new();
    let mut result: Result<Converter, String> = Err(String::new());
    let mut parsed_all = true;
    let mut failed_early = false;
    for f in files {
        let text = to_toml(f);
        let uf: UnitsFile = match toml::from_str(&text) {
            Ok(u) => u,
            Err(e) => {
                // the generator produced something TOML/serde rejects (e.g. duplicate table key): not a builder matter
                st.exclude(&format!("units file not deserializable: {}", e.message().lines().next().unwrap_or("")));
                parsed_all = false;
                break;
            }
        };
        match guard(|| builder.add_units_file(uf).map(|_| ())) {
            Ok(Ok(())) => {}
            Ok(Err(e)) => {
                result = Err(e.to_string());
                failed_early = true;
                break;
            }
            Err(p) => vbail!("c16.panic.add_units_file", "add_units_file panicked: {p}; files {}", serde_json::to_string(files).unwrap()),
        }
    }
    if !parsed_all {
        return Ok(());
    }
    if !failed_early {
        result = match guard(|| builder.finish()) {
            Ok(Ok(c)) => Ok(c),
            Ok(Err(e)) => Err(e.to_string()),
            Err(p) => vbail!("c16.panic.finish", "finish panicked: {p}; files {}", serde_json::to_string(files).unwrap()),
        };
    }
    // a caller may skip a rejected layer and go on with the same builder: whatever it then builds must be
    // consistent too (a failed add must not leave half a unit behind)
    if failed_early && parsed_all {
        let mut b2 = ConverterBuilder::new();
        let mut skipped = 0;
        for f in files {
            let uf: UnitsFile = toml::from_str(&to_toml(f)).expect("parsed above");
            match guard(|| b2.add_units_file(uf).map(|_| ())) {
                Ok(Ok(())) => {}
                Ok(Err(_)) => skipped += 1,
                Err(p) => vbail!("c16.panic.add_units_file", "add_units_file panicked after an earlier rejected layer: {p}; files {}", serde_json::to_string(files).unwrap()),
            }
        }
        match guard(|| b2.finish()) {
            Ok(Ok(c)) => {
                st.class("rejected layer skipped, builder used again (result consistent)");
                generic_consistency(&c).map_err(|mut v| {
                    v.sig = format!("{}.after-rejected-layer", v.sig);
                    v.msg = format!("after skipping {skipped} rejected layer(s) on the same builder: {}; files {}", v.msg, serde_json::to_string(files).unwrap());
                    v
                })?;
            }
            Ok(Err(_)) => {}
            Err(p) => vbail!("c16.panic.finish", "finish panicked after a rejected layer: {p}; files {}", serde_json::to_string(files).unwrap()),
        }
    }
    let refr = reference(files);
    st.nontrivial(&serde_json::to_string(files).unwrap());
    match (&result, &refr) {
        (Ok(_), RefOutcome::Reject(why)) => vbail!("c16.inconsistent-accepted", "the builder accepted layers that must be rejected ({why}); files {}", serde_json::to_string(files).unwrap()),
        (Err(e), RefOutcome::Accept(..)) => vbail!("c16.consistent-rejected", "the builder rejected consistent layers with `{e}`; files {}", serde_json::to_string(files).unwrap()),
        _ => {}
    }
    st.class(match (&result, &refr) {
        (Ok(_), RefOutcome::Accept(..)) => "accepted (model agrees)",
        (Err(_), RefOutcome::Reject(_)) => "rejected (model agrees)",
        (Ok(_), _) => "accepted (order-dependent extend, generic checks only)",
        (Err(_), _) => "rejected (order-dependent extend)",
    });
    st.class_if(files.iter().any(|f| f.extend.is_some()), "has-extend");
    st.class_if(files.iter().any(|f| f.extend.is_some()) && matches!((&result, &refr), (Ok(_), RefOutcome::Accept(..))), "accepted with an extend layer (exact table checked)");
    st.class_if(files.iter().any(|f| f.groups.iter().any(|g| match &g.units { Some(UnitsM::Unified(v)) => v.iter().any(|u| u.expand_si), Some(UnitsM::BySystem { metric, imperial, unspecified }) => metric.iter().chain(imperial).chain(unspecified).any(|u| u.expand_si), None => false })) && result.is_ok(), "accepted with SI expansion");
    st.class_if(files.len() > 1, "multi-layer");
    let Ok(conv) = &result else { return Ok(()) };
    generic_consistency(conv).map_err(|mut v| {
        v.msg = format!("{}; files {}", v.msg, serde_json::to_string(files).unwrap());
        v
    })?;
    // the default system is the one named by the last layer that names one (metric otherwise)
    let expected_default = match files.iter().rev().find_map(|f| f.default_system) {
        Some(true) => System::Imperial,
        _ => System::Metric,
    };
    vensure!(
        conv.default_system() == expected_default,
        "c16.default-system",
        "default system {:?}, the layers name {expected_default:?} last; files {}",
        conv.default_system(),
        serde_json::to_string(files).unwrap()
    );
    if let RefOutcome::Accept(units, best, fracs) = &refr {
        let actual: Vec<_> = conv.all_units().collect();
        // every unit a (final) best list names is held by the converter's list, and nothing else is
        let position = |u: &cooklang::convert::Unit| actual.iter().position(|a| std::ptr::eq(&**a as *const cooklang::convert::Unit, u as *const cooklang::convert::Unit));
        for q in 0..5 {
            let Some(b) = &best[q] else { continue };
            let (metric, imperial): (&Vec<String>, &Vec<String>) = match b {
                BestM::Unified(v) => (v, v),
                BestM::BySystem { metric, imperial } => (metric, imperial),
            };
            let both: Vec<String> = match b {
                BestM::Unified(v) => v.clone(),
                BestM::BySystem { metric, imperial } => metric.iter().chain(imperial).cloned().collect(),
            };
            for (sys, keys) in [(Some(System::Metric), metric.clone()), (Some(System::Imperial), imperial.clone()), (None, both)] {
                let mut expected: Vec<usize> = keys.iter().filter_map(|k| conv.find_unit(k)).filter_map(|u| position(&u)).collect();
                expected.sort();
                expected.dedup();
                let mut got: Vec<usize> = conv.best_units(pq(q), sys).iter().filter_map(|u| position(u)).collect();
                got.sort();
                got.dedup();
                vensure!(
                    expected == got,
                    "c16.best-list-content",
                    "best units of {} for {sys:?}: the final list names {keys:?} = units {expected:?}, the converter holds units {got:?}; files {}",
                    QUANTITIES[q],
                    serde_json::to_string(files).unwrap()
                );
            }
            st.class_if(metric.len() > 1 || imperial.len() > 1, "best list with several units compared with the layers");
        }
        vensure!(actual.len() == units.len(), "c16.unit-count", "converter has {} units, model {}; files {}", actual.len(), units.len(), serde_json::to_string(files).unwrap());
        for (i, (a, m)) in actual.iter().zip(units).enumerate() {
            let v = |x: &Vec<std::sync::Arc<str>>| x.iter().map(|s| s.to_string()).collect::<Vec<_>>();
            let sys = a.system.map(|s| s == System::Imperial);
            vensure!(
                v(&a.names) == m.names && v(&a.symbols) == m.symbols && v(&a.aliases) == m.aliases,
                "c16.layering-order",
                "unit #{i}: names/symbols/aliases {:?}/{:?}/{:?}, the layers' precedence gives {:?}/{:?}/{:?}; files {}",
                a.names, a.symbols, a.aliases, m.names, m.symbols, m.aliases,
                serde_json::to_string(files).unwrap()
            );
            vensure!(
                approx_eq(a.ratio, m.ratio, 1e-12, 0.0) && approx_eq(a.difference, m.difference, 1e-12, 0.0) && a.physical_quantity == pq(m.quantity) && sys == m.system,
                "c16.unit-definition",
                "unit #{i} ({a}): ratio {} difference {} quantity {} system {:?}; model ratio {} difference {} quantity {} imperial {:?}; files {}",
                a.ratio, a.difference, a.physical_quantity, a.system, m.ratio, m.difference, QUANTITIES[m.quantity], m.system,
                serde_json::to_string(files).unwrap()
            );
        }
        // fraction settings, observed through try_fraction on probe values
        if files.iter().any(|f| f.fractions.is_some()) {
            st.class("accepted with fraction layers (effective settings probed)");
            st.class_if(files.iter().filter(|f| f.fractions.is_some()).count() > 1, "several fraction layers");
            for (i, m) in units.iter().enumerate() {
                let Some((enabled, den, whole, acc)) = fracs[i] else { continue };
                let key = m.symbols.first().or(m.names.first()).or(m.aliases.first()).unwrap();
                // 0.3, 0.27, 0.52 and 2.1 become fractions or not depending on the accuracy
                for v in [0.5, 1.0 / 3.0, 0.125, 0.0625, 2.5, 7.25, 11.5, 0.3, 0.27, 0.52, 2.1] {
                    let mut q: ScaledQuantity = Quantity::new(Value::Number(Number::Regular(v)), Some(key.clone()));
                    let did = match guard(|| {
                        let d = q.try_fraction(conv);
                        (d, q.value().clone())
                    }) {
                        Ok(r) => r,
                        Err(p) => vbail!("c16.panic.try_fraction", "try_fraction panicked: {p}; files {}", serde_json::to_string(files).unwrap()),
                    };
                    let expected = if enabled { Number::new_approx(v, acc, den, whole) } else { None };
                    let ok = match (&expected, &did) {
                        (None, (false, _)) => true,
                        (Some(n), (true, Value::Number(got))) => n == got,
                        _ => false,
                    };
                    vensure!(
                        ok,
                        "c16.fraction-layering",
                        "unit #{i} ({key}): the layers give fractions enabled={enabled}, accuracy {acc}, max denominator {den}, max whole {whole}, so {v} reads {expected:?}; try_fraction gave {did:?}; files {}",
                        serde_json::to_string(files).unwrap()
                    );
                }
            }
        }
    }
    Ok(())
}

// ---------------------------------------------------------------------------
// generator

fn word() -> impl Strategy<Value = String> + Clone {
    prop_oneof![
        30 => (0usize..12).prop_map(|i| WORDS[i].to_string()),
        1 => Just(String::new()),
        1 => Just(" ".to_string()),
        8 => "[a-z]{2,4}".prop_map(|s| s),
    ]
}
fn words(max: usize) -> impl Strategy<Value = Vec<String>> + Clone {
    proptest::collection::vec(word(), 0..=max)
}
fn ratio() -> impl Strategy<Value = f64> + Clone {
    prop_oneof![Just(1.0), (1u32..10_000).prop_map(|n| n as f64 / 8.0), (1u32..1000).prop_map(|n| n as f64 * 1000.0), (1u32..1000).prop_map(|n| n as f64 / 4096.0)]
}
fn unit() -> impl Strategy<Value = UnitM> + Clone {
    (words(2), words(2), words(1), ratio(), prop_oneof![9 => Just(0.0), 1 => (0u32..2000).prop_map(|n| n as f64 / 4.0)], proptest::bool::weighted(0.2))
        .prop_map(|(names, symbols, aliases, ratio, difference, expand_si)| UnitM { names, symbols, aliases, ratio, difference, expand_si })
}
fn units() -> impl Strategy<Value = UnitsM> + Clone {
    prop_oneof![
        proptest::collection::vec(unit(), 0..3).prop_map(UnitsM::Unified),
        (proptest::collection::vec(unit(), 0..3), proptest::collection::vec(unit(), 0..2), proptest::collection::vec(unit(), 0..2)).prop_map(|(metric, imperial, unspecified)| UnitsM::BySystem { metric, imperial, unspecified }),
    ]
}
fn best() -> impl Strategy<Value = BestM> + Clone {
    prop_oneof![
        proptest::collection::vec(word(), 0..3).prop_map(BestM::Unified),
        (proptest::collection::vec(word(), 0..3), proptest::collection::vec(word(), 0..3)).prop_map(|(metric, imperial)| BestM::BySystem { metric, imperial }),
    ]
}
fn prefixes() -> impl Strategy<Value = Vec<Vec<String>>> + Clone {
    proptest::collection::vec(proptest::collection::vec(prop_oneof![(0usize..6).prop_map(|i| ["k", "h", "da", "dd", "cc", "mm"][i].to_string()), "[A-Z]{1,2}".prop_map(|s| s)], 0..=2), 6)
}
fn file(first: bool) -> impl Strategy<Value = FileM> {
    let si = (proptest::option::weighted(0.8, prefixes()), proptest::option::weighted(0.8, prefixes()), 0u8..4).prop_map(|(prefixes, symbol_prefixes, precedence)| SiM { prefixes, symbol_prefixes, precedence });
    let entry = (
        proptest::option::weighted(0.2, ratio()),
        proptest::option::weighted(0.2, (0u32..100).prop_map(|n| n as f64)),
        proptest::option::weighted(0.4, words(2)),
        proptest::option::weighted(0.4, words(2)),
        proptest::option::weighted(0.5, words(2)),
    )
        .prop_map(|(ratio, difference, names, symbols, aliases)| ExtEntryM { ratio, difference, names, symbols, aliases });
    let extend = (0u8..4, proptest::collection::vec((word(), entry), 1..=2)).prop_map(|(precedence, mut units)| {
        if units.len() == 2 && units[0].0.len() % 3 != 0 {
            units.truncate(1);
        }
        ExtendM { precedence, units }
    });
    let frac = (
        proptest::option::of(any::<bool>()),
        proptest::option::of(any::<bool>()),
        proptest::option::of((1u8..40, 0u8..9)),
        proptest::collection::vec((0u8..5, any::<bool>()), 0..2),
        proptest::collection::vec((word(), 1u8..20), 0..3),
        (proptest::option::weighted(0.3, 0u8..4), proptest::option::weighted(0.4, 0u8..4), proptest::option::weighted(0.4, 0u8..4)),
    )
        .prop_map(|(all, metric, imperial, quantity, unit, (all_accuracy, unit_accuracy, imperial_accuracy))| FracM { all, metric, imperial, quantity, unit, all_accuracy, unit_accuracy, imperial_accuracy });
    let group = (0u8..5, proptest::option::weighted(0.5, best()), proptest::option::weighted(0.8, units())).prop_map(|(quantity, best, units)| GroupM { quantity, best, units });
    (
        proptest::option::of(any::<bool>()),
        proptest::option::weighted(if first { 0.7 } else { 0.3 }, si),
        proptest::option::weighted(0.4, frac),
        proptest::option::weighted(if first { 0.1 } else { 0.6 }, extend),
        proptest::collection::vec(group, 0..4),
    )
        .prop_map(|(default_system, si, fractions, extend, groups)| FileM { default_system, si, fractions, extend, groups })
}

/// makes acceptance likely: gives every quantity a unit and a best list naming existing units
fn repair(mut files: Vec<FileM>, level: u8) -> Vec<FileM> {
    if level == 0 {
        return files;
    }
    // unique-ify keys across all declared units when level >= 2
    if level >= 2 {
        let mut used: Vec<String> = vec![];
        let mut n = 0;
        for f in files.iter_mut() {
            for g in f.groups.iter_mut() {
                let lists: Vec<&mut Vec<UnitM>> = match &mut g.units {
                    Some(UnitsM::Unified(v)) => vec![v],
                    Some(UnitsM::BySystem { metric, imperial, unspecified }) => vec![metric, imperial, unspecified],
                    None => vec![],
                };
                for l in lists {
                    for u in l.iter_mut() {
                        for k in u.names.iter_mut().chain(u.symbols.iter_mut()).chain(u.aliases.iter_mut()) {
                            if k.trim().is_empty() || used.contains(k) {
                                n += 1;
                                *k = format!("u{n}");
                            }
                            used.push(k.clone());
                        }
                        if u.names.is_empty() && u.symbols.is_empty() && u.aliases.is_empty() {
                            n += 1;
                            u.symbols.push(format!("u{n}"));
                            used.push(format!("u{n}"));
                        }
                    }
                }
            }
        }
    }
    if level >= 2 {
        // extend tables mostly address existing units and mostly add fresh keys
        let mut existing: Vec<String> = vec![];
        for f in &files {
            for g in &f.groups {
                let lists: Vec<&Vec<UnitM>> = match &g.units {
                    Some(UnitsM::Unified(v)) => vec![v],
                    Some(UnitsM::BySystem { metric, imperial, unspecified }) => vec![metric, imperial, unspecified],
                    None => vec![],
                };
                for l in lists {
                    for u in l {
                        existing.extend(u.names.iter().chain(&u.symbols).chain(&u.aliases).cloned());
                    }
                }
            }
        }
        for (fi, f) in files.iter_mut().enumerate() {
            if let Some(fr) = &mut f.fractions {
                for (ei, (k, _)) in fr.unit.iter_mut().enumerate() {
                    if !existing.is_empty() && (k.len() + ei) % 5 != 0 {
                        *k = existing[(k.len() * 5 + fi * 3 + ei) % existing.len()].clone();
                    }
                }
            }
        }
        let mut fresh = 0;
        for (fi, f) in files.iter_mut().enumerate() {
            if let Some(e) = &mut f.extend {
                for (ei, (k, en)) in e.units.iter_mut().enumerate() {
                    if !existing.is_empty() && (k.len() + ei) % 4 != 0 {
                        *k = existing[(k.len() * 7 + fi * 3 + ei) % existing.len()].clone();
                    }
                    for list in [&mut en.names, &mut en.symbols, &mut en.aliases] {
                        if let Some(v) = list {
                            for x in v.iter_mut() {
                                if (x.len() + ei) % 3 != 0 {
                                    fresh += 1;
                                    *x = format!("x{fresh}");
                                }
                            }
                        }
                    }
                }
            }
        }
    }
    // every quantity gets a unit and a best list in the first file
    let mut base_groups = vec![];
    for q in 0..5u8 {
        let key = format!("base{q}");
        base_groups.push(GroupM {
            quantity: q,
            best: Some(BestM::Unified(vec![key.clone()])),
            units: Some(UnitsM::Unified(vec![UnitM { names: vec![key.clone()], symbols: vec![format!("B{q}")], aliases: vec![], ratio: 1.0, difference: 0.0, expand_si: false }])),
        });
    }
    if let Some(f) = files.first_mut() {
        let mut g = base_groups;
        g.append(&mut f.groups);
        f.groups = g;
    }
    if level >= 3 {
        // SI prefix tables without clashes between prefixes or layers
        for (fi, f) in files.iter_mut().enumerate() {
            if let Some(si) = &mut f.si {
                for (t, table) in [&mut si.prefixes, &mut si.symbol_prefixes].into_iter().enumerate() {
                    if let Some(tb) = table {
                        for (i, list) in tb.iter_mut().enumerate() {
                            for (j, x) in list.iter_mut().enumerate() {
                                *x = format!("{}{fi}{i}{j}", if t == 0 { "P" } else { "S" });
                            }
                        }
                    }
                }
            }
        }
        // best lists only name units of their own quantity that exist
        let mut by_q: Vec<Vec<String>> = vec![vec![]; 5];
        for f in &files {
            for g in &f.groups {
                let lists: Vec<&Vec<UnitM>> = match &g.units {
                    Some(UnitsM::Unified(v)) => vec![v],
                    Some(UnitsM::BySystem { metric, imperial, unspecified }) => vec![metric, imperial, unspecified],
                    None => vec![],
                };
                for l in lists {
                    for u in l {
                        if let Some(k) = u.symbols.first().or(u.names.first()) {
                            by_q[g.quantity as usize % 5].push(k.clone());
                        }
                    }
                }
            }
        }
        for (fi, f) in files.iter_mut().enumerate() {
            for g in f.groups.iter_mut() {
                let pool = &by_q[g.quantity as usize % 5];
                let fix = |v: &mut Vec<String>| {
                    for (i, k) in v.iter_mut().enumerate() {
                        *k = pool[(i + fi) % pool.len()].clone();
                    }
                    if v.is_empty() {
                        v.push(pool[0].clone());
                    }
                    v.dedup();
                };
                match &mut g.best {
                    Some(BestM::Unified(v)) => fix(v),
                    Some(BestM::BySystem { metric, imperial }) => {
                        fix(metric);
                        fix(imperial);
                    }
                    None => {}
                }
            }
        }
    }
    if level >= 2 {
        // some extend and fraction keys name an automatically expanded unit (prefix of the first SI table + a
        // name or symbol of an expand_si unit), the rest stay as they are
        let mut expanded: Vec<String> = vec![];
        let first_si = files.iter().find_map(|f| f.si.as_ref().filter(|s| s.prefixes.is_some() && s.symbol_prefixes.is_some())).cloned();
        if let Some(si) = first_si {
            for f in &files {
                for g in &f.groups {
                    let lists: Vec<&Vec<UnitM>> = match &g.units {
                        Some(UnitsM::Unified(v)) => vec![v],
                        Some(UnitsM::BySystem { metric, imperial, unspecified }) => vec![metric, imperial, unspecified],
                        None => vec![],
                    };
                    for u in lists.into_iter().flatten().filter(|u| u.expand_si) {
                        for i in 0..6 {
                            if let (Some(p), Some(n)) = (si.prefixes.as_ref().unwrap()[i].first(), u.names.first()) {
                                expanded.push(format!("{p}{n}"));
                            }
                            if let (Some(p), Some(n)) = (si.symbol_prefixes.as_ref().unwrap()[i].first(), u.symbols.first()) {
                                expanded.push(format!("{p}{n}"));
                            }
                        }
                    }
                }
            }
        }
        if !expanded.is_empty() {
            for (fi, f) in files.iter_mut().enumerate() {
                if let Some(e) = &mut f.extend {
                    for (ei, (k, en)) in e.units.iter_mut().enumerate() {
                        let h = k.len() * 3 + fi + ei + en.ratio.map_or(0, |r| r as usize);
                        if h % 3 == 0 {
                            *k = expanded[h / 3 % expanded.len()].clone();
                        }
                    }
                }
                if let Some(fr) = &mut f.fractions {
                    for (ei, (k, d)) in fr.unit.iter_mut().enumerate() {
                        let h = k.len() + fi * 5 + ei + *d as usize;
                        if h % 4 == 0 {
                            *k = expanded[h / 4 % expanded.len()].clone();
                        }
                    }
                }
            }
        }
    }
    files
}

#[derive(Debug, Clone, Serialize, Deserialize)]
pub struct Case {
    pub files: Vec<FileM>,
}

fn case() -> impl Strategy<Value = Case> {
    (file(true), proptest::collection::vec(file(false), 0..3), 0u8..4).prop_map(|(first, rest, level)| {
        let mut files = vec![first];
        files.extend(rest);
        Case { files: repair(files, level) }
    })
}

/// the shipped units may be added to a builder at any point, not only first
fn bundled_after_layer_ok() -> bool {
    let layer = |sym: &str| -> UnitsFile {
        toml::from_str(&format!("[[quantity]]\nquantity = \"mass\"\n[quantity.units]\nunspecified = [ {{ names = [\"knob\"], symbols = [\"{sym}\"], ratio = 15 }} ]\n")).expect("layer")
    };
    let n = Converter::bundled().unit_count();
    // by value and by reference: the earlier layer stays
    let a = guard(|| ConverterBuilder::new().with_units_file(layer("knb")).and_then(|b| b.with_bundled_units()).and_then(|b| b.finish()));
    let b = guard(|| {
        let mut b = ConverterBuilder::new();
        b.add_units_file(layer("knb"))?;
        b.add_bundled_units()?;
        b.finish()
    });
    let ok = |r: &Result<Result<Converter, cooklang::convert::ConverterBuilderError>, String>| matches!(r, Ok(Ok(c)) if c.unit_count() == n + 1 && c.find_unit("knob").is_some() && c.find_unit("kg").is_some());
    // a layer that claims a shipped key clashes with the shipped units whichever comes first
    let clash = guard(|| ConverterBuilder::new().with_units_file(layer("g")).and_then(|b| b.with_bundled_units()).and_then(|b| b.finish()));
    ok(&a) && ok(&b) && matches!(clash, Ok(Err(_)))
}

fn fixed_cases(run: &mut Run) {
    let mut st = Stats::default();
    // default converter == built from the shipped units file
    let text = std::fs::read_to_string(repo_dir().join("units.toml"));
    let mut fail = None;
    match text {
        Err(e) => run.set_inconclusive(format!("cannot read units.toml: {e}")),
        Ok(text) => {
            st.eval();
            st.nontrivial("units.toml");
            match toml::from_str::<UnitsFile>(&text) {
                Err(e) => fail = Some(Violation::new("c16.shipped-file-unreadable", format!("units.toml does not deserialize: {e}"))),
                Ok(uf) => match guard(|| ConverterBuilder::new().with_units_file(uf).and_then(|b| b.finish())) {
                    Ok(Ok(c)) => {
                        let via_builder = guard(|| Converter::builder().with_bundled_units().and_then(|b| b.finish()));
                        if !matches!(&via_builder, Ok(Ok(b)) if *b == c) {
                            fail = Some(Violation::new("c16.default-differs-from-shipped-file", "Converter::builder().with_bundled_units().finish() differs from the converter built from units.toml (or fails)"));
                        } else if !bundled_after_layer_ok() {
                            fail = Some(Violation::new("c16.bundled-after-layer", "a builder that already holds a layer loses it (or its key clash with the shipped units goes unnoticed) when with_bundled_units() / add_bundled_units() is called on it"));
                        } else if UnitsFile::bundled() != toml::from_str::<UnitsFile>(&text).unwrap() {
                            fail = Some(Violation::new("c16.default-differs-from-shipped-file", "UnitsFile::bundled() differs from units.toml read through toml"));
                        } else if c != Converter::default() || c != Converter::bundled() {
                            fail = Some(Violation::new("c16.default-differs-from-shipped-file", "Converter::default() differs from the converter built from units.toml"));
                        } else if let Err(v) = generic_consistency(&c) {
                            fail = Some(v);
                        }
                        // spanish layer
                        st.eval();
                        st.nontrivial("units/spanish.toml");
                        if let Ok(sp) = std::fs::read_to_string(repo_dir().join("units/spanish.toml")) {
                            match toml::from_str::<UnitsFile>(&sp) {
                                Err(e) => fail = fail.or(Some(Violation::new("c16.shipped-file-unreadable", format!("units/spanish.toml: {e}")))),
                                Ok(spf) => {
                                    let base: UnitsFile = toml::from_str(&text).unwrap();
                                    match guard(|| ConverterBuilder::new().with_units_file(base).and_then(|b| b.with_units_file(spf)).and_then(|b| b.finish())) {
                                        Ok(Ok(c2)) => {
                                            if let Err(v) = generic_consistency(&c2) {
                                                fail = fail.or(Some(v));
                                            }
                                            for (k, same_as) in [("gramo", "g"), ("litro", "l"), ("cucharada", "tbsp"), ("taza", "cup")] {
                                                if let (Some(a), Some(b)) = (c2.find_unit(k), c2.find_unit(same_as)) {
                                                    if *a != *b {
                                                        fail = fail.or(Some(Violation::new("c16.spanish-layer", format!("{k} does not resolve to the unit of {same_as}"))));
                                                    }
                                                }
                                            }
                                        }
                                        Ok(Err(e)) => fail = fail.or(Some(Violation::new("c16.spanish-layer", format!("bundled + spanish.toml rejected: {e}")))),
                                        Err(p) => fail = fail.or(Some(Violation::new("c16.panic.finish", p))),
                                    }
                                }
                            }
                        }
                    }
                    Ok(Err(e)) => fail = Some(Violation::new("c16.shipped-file-rejected", format!("units.toml rejected: {e}"))),
                    Err(p) => fail = Some(Violation::new("c16.panic.finish", p)),
                },
            }
        }
    }
    st.sample(|| json!("units.toml, units/spanish.toml"));
    run.add_part("shipped-files", "Converter::default() == converter built from units.toml (deserialized with toml); units/spanish.toml layered on it builds and its names resolve to the bundled units", st, true);
    if let Some(v) = fail {
        run.fail("shipped-files", v, json!("units.toml"));
    }
}

/// layer sequences on top of units.toml whose steps are fine alone: (keys that must resolve, the unit each names by
/// one of its bundled keys)
const LAYER_SEQUENCES: &[(&[&str], &[(&str, &str)])] = &[
    // an alias for an SI-expanded unit, then an edit of its base unit (which regenerates the expanded units)
    (&["[extend.units]\nkg = { aliases = [\"kilo\"] }\n", "[extend.units]\ng = { aliases = [\"gr\"] }\n"], &[("kilo", "kg"), ("gr", "g"), ("kilogram", "kg"), ("mg", "milligram")]),
    (&["[extend.units]\nml = { aliases = [\"mil\", \"mils\"] }\ndl = { aliases = [\"deci\"] }\n", "[extend.units]\nl = { names = [\"litro\"], ratio = 1 }\n"], &[("mil", "ml"), ("mils", "ml"), ("deci", "dl"), ("litro", "l"), ("kl", "kiloliter")]),
    (&["[extend.units]\ncm = { aliases = [\"centi\"] }\n", "[extend]\nprecedence = \"after\"\n[extend.units]\nm = { symbols = [\"mt\"] }\n", "[extend.units]\nkm = { aliases = [\"kilom\"] }\n"], &[("centi", "cm"), ("mt", "m"), ("kilom", "km"), ("mm", "millimeter")]),
];

fn layer_sequences(run: &mut Run) {
    let mut st = Stats::default();
    let mut fail = None;
    'outer: for (layers, expect) in LAYER_SEQUENCES {
        st.eval();
        st.nontrivial(&layers.concat());
        let built = guard(|| {
            let mut b = ConverterBuilder::new().with_units_file(UnitsFile::bundled()).map_err(|e| e.to_string())?;
            for l in *layers {
                let f: UnitsFile = toml::from_str(l).map_err(|e| format!("layer is not well typed: {e}"))?;
                b = b.with_units_file(f).map_err(|e| e.to_string())?;
            }
            b.finish().map_err(|e| e.to_string())
        });
        let conv = match built {
            Err(p) => {
                fail = Some(Violation::new("c16.panic.finish", format!("building panicked: {p}; layers {layers:?}")));
                break;
            }
            Ok(Err(e)) => {
                fail = Some(Violation::new("c16.valid-stack-rejected", format!("units.toml + {layers:?} is rejected: {e}")));
                break;
            }
            Ok(Ok(c)) => c,
        };
        for (key, same_as) in *expect {
            let (a, b) = (conv.find_unit(key), conv.find_unit(same_as));
            let same = matches!((&a, &b), (Some(a), Some(b)) if std::sync::Arc::ptr_eq(a, b));
            if !same {
                fail = Some(Violation::new("c16.key-resolves-to-other-unit", format!("after the layers {layers:?} the key `{key}` resolves to {:?}, it was declared for the unit of `{same_as}` ({:?})", a.map(|u| u.to_string()), b.map(|u| u.to_string()))));
                break 'outer;
            }
        }
        if let Err(v) = generic_consistency(&conv) {
            fail = Some(v);
            break;
        }
    }
    st.sample(|| json!(LAYER_SEQUENCES[0].0));
    run.add_part("layer-sequences", "3 fixed sequences of extend layers on units.toml in which an alias is given to an SI-expanded unit and a later layer edits its base unit: every declared key must resolve to its unit and the converter must pass the generic consistency checks; every sequence is non-trivial", st, true);
    if let Some(v) = fail {
        run.fail("layer-sequences", v, json!("fixed"));
    }
}

pub fn run(tier: Tier) -> i32 {
    let mut run = Run::new("C16", tier);
    run.assume("units files are written as TOML and deserialized with the crate's own serde model (the documented input path); files the deserializer rejects are counted as excluded");
    run.assume("ratios are finite and positive; when an extend table has two entries the outcome may depend on table iteration order, then only the generic consistency checks apply");
    run.replay_regressions(&|_p, j| oracle(&case_from::<Case>(j)?.files, &mut Stats::default()));
    if !run.failed() {
        fixed_cases(&mut run);
    }
    if !run.failed() {
        layer_sequences(&mut run);
    }
    if !run.failed() {
        run_prop(
            &mut run,
            "layers",
            "1-4 generated units files (unit groups by system, names/symbols/aliases from a 14-word pool incl. blank and colliding keys, SI prefix tables with each precedence, expand_si, best lists incl. unknown / empty / foreign-quantity names, fraction layers (base / per system / per quantity / per unit), extend tables with each precedence, extend and fraction keys naming automatically expanded units) with 4 repair levels so that both rejected and accepted stacks are frequent; oracle: a reference model of the layering gives must-reject verdicts and, for accepted stacks, the exact expected unit table (key order included) and the effective fraction settings of every unit, probed through try_fraction on 11 values; every accepted converter is checked for key resolution, key uniqueness and sorted, same-quantity best lists; distinct = distinct stack",
            case,
            tier.pick(60_000, 4_000_000),
            |c: &Case, st| {
                st.sample(|| json!({"files": c.files.iter().map(to_toml).collect::<Vec<_>>()}));
                oracle(&c.files, st)
            },
        );
    }
    run.finish()
}

pub fn replay(_p: &str, j: &serde_json::Value) -> Verdict {
    oracle(&case_from::<Case>(j)?.files, &mut Stats::default())
}
