//! C15 — recipes survive serialization.

use cooklang::convert::System;
use cooklang::{ScalableRecipe, ScaledRecipe};
use proptest::prelude::*;
use serde::{Deserialize, Serialize};

use crate::common::*;
use crate::pipeline::*;
use crate::recipe_inputs::recipe_input_strategy;
use crate::soup::*;
use crate::{vbail, vensure};

#[derive(Debug, Clone, Serialize, Deserialize)]
pub struct Case {
    pub input: InputCase,
    /// 0 scalable only, 1 default_scale, 2 scale(f)
    pub stage: u8,
    pub factor_bits: u64,
    /// 0 none, 1 metric, 2 imperial
    pub convert: u8,
}

fn yaml_json_safe(v: &serde_yaml::Value) -> Result<(), &'static str> {
    use serde_yaml::Value as Y;
    match v {
        Y::Number(n) => {
            if n.as_f64().is_some_and(|f| !f.is_finite()) {
                return Err("non-finite YAML number");
            }
            Ok(())
        }
        Y::Sequence(s) => s.iter().try_for_each(yaml_json_safe),
        Y::Mapping(m) => m.iter().try_for_each(|(k, v)| {
            // (`is_string` looks through YAML tags: `! "note": 0` has a tagged key that JSON cannot hold either)
            if !matches!(k, Y::String(_)) {
                return Err("non-string metadata key (JSON cannot hold it)");
            }
            yaml_json_safe(v)
        }),
        Y::Tagged(_) => Err("YAML tag"),
        _ => Ok(()),
    }
}

fn roundtrip_scalable(r: &ScalableRecipe, src: &str) -> Verdict {
    let s = match serde_json::to_string(r) {
        Ok(s) => s,
        Err(e) => vbail!("c15.serialize-failed", "to_string failed: {e}; source {src:?}"),
    };
    let back: ScalableRecipe = match serde_json::from_str(&s) {
        Ok(b) => b,
        Err(e) => vbail!("c15.deserialize-failed", "from_str failed on the recipe's own JSON: {e}\n json {s}\n source {src:?}"),
    };
    vensure!(back == *r, "c15.not-equal", "deserialized recipe != original (PartialEq)\n json {s}\n source {src:?}");
    vensure!(
        format!("{back:?}") == format!("{r:?}"),
        "c15.not-equal",
        "deserialized recipe differs from the original field by field\n original {r:?}\n restored {back:?}\n source {src:?}"
    );
    let s2 = serde_json::to_string(&back).unwrap_or_default();
    vensure!(s == s2, "c15.reserialization-differs", "re-serialization is not byte-identical\n first  {s}\n second {s2}\n source {src:?}");
    Ok(())
}

fn roundtrip_scaled(r: &ScaledRecipe, src: &str, stage: &str) -> Verdict {
    let s = match serde_json::to_string(r) {
        Ok(s) => s,
        Err(e) => vbail!("c15.serialize-failed", "{stage}: to_string failed: {e}; source {src:?}"),
    };
    let back: ScaledRecipe = match serde_json::from_str(&s) {
        Ok(b) => b,
        Err(e) => vbail!("c15.deserialize-failed", "{stage}: from_str failed on the recipe's own JSON: {e}\n json {s}\n source {src:?}"),
    };
    vensure!(
        format!("{back:?}") == format!("{r:?}"),
        "c15.not-equal",
        "{stage}: deserialized recipe differs from the original field by field\n original {r:?}\n restored {back:?}\n source {src:?}"
    );
    let s2 = serde_json::to_string(&back).unwrap_or_default();
    vensure!(s == s2, "c15.reserialization-differs", "{stage}: re-serialization is not byte-identical\n first  {s}\n second {s2}\n source {src:?}");
    Ok(())
}

fn all_finite(r: &ScalableRecipe) -> bool {
    // numbers written in a recipe are finite unless a literal overflows f64
    let s = format!("{:?}{:?}{:?}{:?}", r.ingredients, r.cookware, r.timers, r.inline_quantities);
    !s.contains("inf") && !s.contains("NaN")
}

pub fn oracle(c: &Case, st: &mut Stats) -> Verdict {
    let src = c.input.input();
    let p = parser(c.input.ext, c.input.conv);
    let conv = converter(c.input.conv);
    let Ok(res) = guard(|| p.parse(&src)) else {
        st.exclude("parse panicked (C03's business)");
        return Ok(());
    };
    let Some(r) = res.output() else {
        st.class("no-output");
        return Ok(());
    };
    if let Err(why) = yaml_json_safe(&serde_yaml::Value::Mapping(r.metadata.map.clone())) {
        st.exclude(why);
        return Ok(());
    }
    if !all_finite(r) {
        st.exclude("non-finite number in the recipe");
        return Ok(());
    }
    let has_components = !r.ingredients.is_empty() || !r.cookware.is_empty() || !r.timers.is_empty();
    if has_components {
        st.nontrivial(&(src.as_str(), c.input.ext, c.input.conv, c.stage % 3, c.convert % 3, c.factor_bits));
    }
    st.class_if(r.ingredients.iter().any(|i| i.relation.references_to().is_some()), "has-reference");
    st.class_if(r.ingredients.iter().any(|i| i.relation.is_intermediate_reference()), "has-intermediate-reference");
    st.class_if(!r.metadata.map.is_empty(), "has-metadata");
    st.class_if(r.ingredients.iter().any(|i| i.note.as_deref() == Some("")), "empty-note");
    st.class_if(r.ingredients.iter().any(|i| i.reference.is_some()), "recipe-path-reference");
    roundtrip_scalable(r, &src)?;
    // reading a recipe through its `&self` accessors must not change what it is equal to
    let touched = guard(|| {
        let m = &r.metadata;
        let _ = (m.title(), m.description(), m.tags(), m.author(), m.source(), m.time(conv), m.servings(), m.locale(), r.servings());
        let _ = m.map_filtered().count();
        for i in &r.ingredients {
            let _ = (i.display_name(), i.modifiers());
        }
    });
    if touched.is_ok() {
        roundtrip_scalable(r, &format!("{src} [after calling the read accessors]"))?;
        let again = p.parse(&src);
        if let Some(r2) = again.output() {
            vensure!(*r2 == *r, "c15.not-equal", "a recipe whose read accessors were called is no longer equal to a fresh parse of the same text; source {src:?}");
        }
    }
    if c.stage % 3 == 0 {
        return Ok(());
    }
    let fresh = p.parse(&src).into_output().unwrap();
    let f = f64::from_bits(c.factor_bits);
    let (mut scaled, stage) = if c.stage % 3 == 1 { (fresh.default_scale(), "default_scale") } else { (fresh.scale(f, conv), "scale") };
    st.class(stage);
    let dbg = format!("{:?}", scaled.ingredients);
    if dbg.contains("inf") || dbg.contains("NaN") {
        st.exclude("non-finite number after scaling");
        return Ok(());
    }
    roundtrip_scaled(&scaled, &src, stage)?;
    let _ = guard(|| {
        let m = &scaled.metadata;
        let _ = (m.tags(), m.time(conv), m.servings(), m.author(), scaled.group_ingredients(conv).len(), scaled.group_cookware().len());
    });
    roundtrip_scaled(&scaled, &src, &format!("{stage} + read accessors"))?;
    if c.convert % 3 != 0 {
        let sys = if c.convert % 3 == 1 { System::Metric } else { System::Imperial };
        let _ = scaled.convert(sys, conv);
        st.class("converted");
        roundtrip_scaled(&scaled, &src, &format!("{stage} + convert({sys})"))?;
    }
    Ok(())
}

fn case(mutate: bool) -> impl Strategy<Value = Case> {
    (recipe_input_strategy(mutate), 0u8..3, prop_oneof![(1e-3f64..1e3), Just(1.0), Just(4e18), Just(1.0 / 3.0)], 0u8..3)
        .prop_map(|(input, stage, f, convert)| Case { input, stage, factor_bits: f.to_bits(), convert })
}

pub fn run(tier: Tier) -> i32 {
    let mut run = Run::new("C15", tier);
    run.assume("equality is checked with PartialEq where the type has it (ScalableRecipe) and field by field through the Debug rendering (all stages); serde_json with float_roundtrip so that float parsing is exact");
    run.assume("excluded (counted): metadata with non-string keys, YAML tags or non-finite YAML numbers; recipes holding non-finite numbers");
    run.replay_regressions(&|_p, j| oracle(&case_from(j)?, &mut Stats::default()));
    for (part, mutate, n) in [("recipes", false, tier.pick(30_000, 3_000_000)), ("recipe-mutations", true, tier.pick(20_000, 2_000_000))] {
        if run.failed() {
            break;
        }
        run_prop(
            &mut run,
            part,
            "generated recipes (all relation kinds, modifiers, fractions, ranges, empty notes, huge integers, nested YAML metadata), optionally mutated, parsed under their own or a random configuration; the scalable recipe, its default_scale / scale(f) (f random, also 4e18) and the result of convert to either system are each serialized to JSON, deserialized, compared and re-serialized, also after the recipe's read accessors (metadata getters, grouping) were called; non-trivial = the recipe has components; distinct = distinct (source, configuration, stage, factor)",
            move || case(mutate),
            n,
            |c: &Case, st| {
                st.sample(|| c.input.describe());
                oracle(c, st)
            },
        );
    }
    if !run.failed() {
        run_prop(
            &mut run,
            "line-documents",
            "random line documents (recipe path references with odd segments, standard metadata, mode switches, fences, soup lines) through the same stages",
            || {
                (crate::soup::lines_strategy(), 0u8..3, prop_oneof![(1e-3f64..1e3), Just(1.0)], 0u8..3).prop_map(|(input, stage, f, convert)| Case { input, stage, factor_bits: f.to_bits(), convert })
            },
            tier.pick(30_000, 3_000_000),
            |c: &Case, st| oracle(c, st),
        );
    }
    if !run.failed() {
        run_prop(
            &mut run,
            "rational-amounts",
            "1-4 ingredients with amounts p/q (p 1..24, q 1..12; written as a fraction, a mixed number or the decimal the division gives) in units where fractions are shown (cup, tsp, tbsp, lb, oz, inch, fl oz) or not (g, l, none), scaled by r/s (1..12 each) and converted: the products sit on or one float step next to the fractions of the table, where the recorded error is zero or tiny; same stages and oracle as above; distinct = distinct (source, factor, conversion)",
            || {
                (
                    proptest::collection::vec((1u32..24, 1u32..12, 0u8..3, proptest::sample::select(vec!["cup", "tsp", "tbsp", "lb", "oz", "inch", "fl oz", "g", "l", ""])), 1..=4),
                    (1u32..=12, 1u32..=12),
                    0u8..3,
                )
                    .prop_map(|(items, (r, s), convert)| {
                        let mut src = String::from("Mix");
                        for (k, (p, q, form, unit)) in items.iter().enumerate() {
                            let amount = match form {
                                0 => format!("{p}/{q}"),
                                1 if p > q && p % q != 0 => format!("{} {}/{q}", p / q, p % q),
                                _ => format!("{}", *p as f64 / *q as f64),
                            };
                            let unit = if unit.is_empty() { String::new() } else { format!("%{unit}") };
                            src.push_str(&format!(" @i{k}{{{amount}{unit}}}"));
                        }
                        src.push_str(".\n");
                        Case { input: InputCase { pieces: vec![src], ext: EXT_ALL, conv: 1 }, stage: 2, factor_bits: (r as f64 / s as f64).to_bits(), convert }
                    })
            },
            tier.pick(20_000, 1_000_000),
            |c: &Case, st| {
                st.sample(|| c.input.describe());
                oracle(c, st)
            },
        );
    }
    run.finish()
}

pub fn replay(_p: &str, j: &serde_json::Value) -> Verdict {
    oracle(&case_from(j)?, &mut Stats::default())
}
