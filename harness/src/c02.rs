//! C02 — core-syntax recipes parse identically under every extension subset; with an extension
//! disabled its special syntax reads as ordinary core text.

use cooklang::Extensions;
use proptest::prelude::*;
use serde::{Deserialize, Serialize};
use serde_json::json;

use crate::common::*;
use crate::gen_recipe::*;
use crate::image::*;
use crate::model::*;
use crate::pipeline::*;
use crate::print::*;
use crate::{vbail, vensure};

pub fn result_image(res: &cooklang::RecipeResult) -> String {
    let out = res.output().map(|r| serde_json::to_string(r).unwrap_or_else(|e| format!("<unserializable: {e}>")));
    let diags: Vec<String> = res
        .report()
        .iter()
        .map(|d| format!("{:?}|{:?}|{}|{:?}|{:?}", d.severity, d.stage, d.message, d.labels, d.hints))
        .collect();
    format!("{out:?}\n{diags:?}")
}

/// the metadata-only entry point must read the same entries as the full parse (ordered comparison)
fn meta_only_agrees(idx: usize, src: &str, res: &cooklang::RecipeResult, sig: &str) -> Verdict {
    let meta = match guard(|| parser(idx, 1).parse_metadata(src)) {
        Ok(m) => m,
        Err(p) => vbail!("c02.panic", "parse_metadata panicked under {}: {p}; source {src:?}", ext_name(idx)),
    };
    if let (Some(f), Some(m)) = (res.output(), meta.output()) {
        let fe: Vec<_> = f.metadata.map.iter().collect();
        let me: Vec<_> = m.map.iter().collect();
        vensure!(fe == me, sig.to_string(), "under {} the metadata-only parse reads {:?} but the full parse reads {:?}; source {src:?}", ext_name(idx), m.map, f.metadata.map);
    } else {
        vensure!(meta.output().is_some(), sig.to_string(), "under {} the metadata-only parse of a core recipe gives no output: {:?}; source {src:?}", ext_name(idx), meta.report().iter().map(|d| d.message.to_string()).collect::<Vec<_>>());
    }
    Ok(())
}

fn check_core_everywhere(raw: &RawRecipe, st: &mut Stats) -> Verdict {
    let m = build(raw, false);
    assert_eq!(m.level, Level::Core);
    let (src, feats) = print_recipe(&m, &raw.tape);
    crate::c01::classify(&m, &feats, st);
    let kinds = m
        .blocks
        .iter()
        .filter_map(|b| if let BlockM::Step(t) = b { Some(t) } else { None })
        .flatten()
        .map(|t| match &t.tok {
            TokM::Comp(c) => 1u8 << (c.kind as u8),
            TokM::Timer(_) => 4,
            _ => 0,
        })
        .fold(0u8, |a, b| a | b);
    if kinds.count_ones() >= 2 {
        st.nontrivial(&src);
    }
    st.sample(|| json!({"source": src}));
    let expected = expected_image(&m, &ExpectOpts { inline: false });
    let base = match guard(|| parser(EXT_EMPTY, 1).parse(&src)) {
        Ok(r) => r,
        Err(p) => vbail!("c02.panic", "parse panicked: {p}; source {src:?}"),
    };
    let base_img = result_image(&base);
    for idx in 0..N_EXT {
        let res = match guard(|| parser(idx, 1).parse(&src)) {
            Ok(r) => r,
            Err(p) => vbail!("c02.panic", "parse panicked under {}: {p}; source {src:?}", ext_name(idx)),
        };
        let errors: Vec<String> = res.report().errors().map(|e| e.message.to_string()).collect();
        vensure!(
            errors.is_empty() && res.output().is_some(),
            "c02.error-on-core-recipe",
            "core-syntax recipe gives errors {errors:?} under {}; source {src:?}",
            ext_name(idx)
        );
        meta_only_agrees(idx, &src, &res, "c02.metadata-only-differs")?;
        if idx != EXT_EMPTY {
            let img = result_image(&res);
            vensure!(
                img == base_img,
                "c02.differs-from-no-extensions",
                "result under {} differs from the result without extensions\n with: {}\n without: {}\n source {src:?}",
                ext_name(idx),
                truncate(&img, 1500),
                truncate(&base_img, 1500)
            );
        } else {
            let actual = actual_image(res.output().unwrap()).map_err(|e| Violation::new("c02.image", e))?;
            if let Some((what, d)) = diff(&expected, &actual) {
                vbail!(format!("c02.core-mismatch.{what}"), "{d}; no extensions; source {src:?}");
            }
        }
    }
    Ok(())
}

#[derive(Debug, Clone, Serialize, Deserialize)]
pub struct ConverseCase {
    pub raw: RawRecipe,
    pub sample: u8,
    pub variant: u8,
    pub pos: u16,
}

/// (extension whose absence is tested, human name)
const SAMPLES: [(&str, &str); 8] = [
    ("alias", "`|` in a name"),
    ("range", "`2-3` value"),
    ("advanced", "`1 kg` without %"),
    ("modes", "`>> [mode]: steps`"),
    ("inline", "number + known unit in text"),
    ("timer", "timer without duration"),
    ("modifiers", "modifier character after the marker"),
    ("intermediate", "`&(1)` after the marker"),
];

fn sample_ext(sample: u8) -> Extensions {
    match sample {
        0 => Extensions::COMPONENT_ALIAS,
        1 => Extensions::RANGE_VALUES,
        2 => Extensions::ADVANCED_UNITS,
        3 => Extensions::MODES,
        4 => Extensions::INLINE_QUANTITIES,
        5 => Extensions::TIMER_REQUIRES_TIME,
        7 => Extensions::INTERMEDIATE_PREPARATIONS,
        _ => Extensions::COMPONENT_MODIFIERS,
    }
}

fn inject(m: &mut RecipeM, sample: u8, variant: u8, pos: u16) {
    let comp = |name: &str, qty: Option<QtyM>| CompM {
        kind: if variant & 1 == 0 { Kind::Ingredient } else { Kind::Cookware },
        mods: 0,
        inter: None,
        name: name.to_string(),
        alias: None,
        qty,
        note: None,
        braces: true,
    };
    let word = |w: &str, sp: bool| StepTok { space_before: sp, tok: TokM::Word(w.into()) };
    let tok = match sample {
        0 if variant % 4 == 3 => TokM::Timer(TimerM {
            name: Some(["rest|proof", "nap|n"][(variant / 4) as usize % 2].into()),
            qty: Some(QtyM { lock: false, value: ValM::Num(NumM::Int(30)), unit: Some("min".into()), blank_sep: false }),
            braces: true,
        }),
        0 => TokM::Comp(comp(["olive oil|oil", "wine|w", "a|b c", "salt|pepper|cumin", "a||b", "pot|pan|wok|"][variant as usize % 6], None)),
        1 => {
            let v = ["2-3", "1.5-2", "1/2-3/4", "2 - 3", "1/0-2", "1 - 1 1/0", "1/99999999999-2"][variant as usize % 7];
            let unit = (variant & 8 != 0 && variant & 1 == 0).then(|| "kg".to_string());
            TokM::Comp(comp("eggs", Some(QtyM { lock: false, value: ValM::Text(v.into()), unit, blank_sep: false })))
        }
        2 => {
            // ingredient or cookware (`#pan{2 large}` is a text value as well)
            let v = ["1 kg", "2 cups", "1/2 tsp", "1.5 l", "2 large", "1 1/2 dozen"][(variant as usize / 2) % 6];
            TokM::Comp(comp("water", Some(QtyM { lock: false, value: ValM::Text(v.into()), unit: None, blank_sep: false })))
        }
        3 => {
            m.front = None;
            m.blocks.retain(|b| !matches!(b, BlockM::Meta(k, _) if k.starts_with('[')) && !matches!(b, BlockM::StepLine(_)));
            let (k, v) = [("[mode]", "steps"), ("[mode]", "components"), ("[duplicate]", "ref"), ("[define]", "text"), ("[mode]", "bogus")][variant as usize % 5];
            let i = (pos as usize * (m.blocks.len() + 1)) >> 16;
            m.blocks.insert(i, BlockM::Meta(k.into(), v.into()));
            // something after it that a mode would change
            m.blocks.push(BlockM::Step(vec![
                word("Add", false),
                StepTok { space_before: true, tok: TokM::Comp(CompM { kind: Kind::Ingredient, mods: 0, inter: None, name: "salt".into(), alias: None, qty: None, note: None, braces: true }) },
                word("and", true),
                StepTok { space_before: true, tok: TokM::Comp(CompM { kind: Kind::Ingredient, mods: 0, inter: None, name: "salt".into(), alias: None, qty: None, note: None, braces: true }) },
            ]));
            return;
        }
        4 => TokM::Inline {
            number: ["180", "2", "1.5"][variant as usize % 3].into(),
            unit: ["ºC", "kg", "minutes", "°F"][(variant / 3) as usize % 4].into(),
            glued: variant & 64 != 0,
        },
        5 => TokM::Timer(TimerM { name: Some(["rest", "bake"][variant as usize % 2].into()), qty: None, braces: variant & 2 != 0 }),
        // a modifier character after `~` is part of the timer's name without the modifiers extension
        _ if variant % 5 == 4 => TokM::Timer(TimerM {
            name: Some(["-rest", "+a", "&t", "?nap"][(variant / 5) as usize % 4].into()),
            qty: Some(QtyM { lock: false, value: ValM::Num(NumM::Int(5)), unit: Some("min".into()), blank_sep: false }),
            braces: true,
        }),
        _ => {
            let ch = ['&', '-', '?', '+'][variant as usize % 4];
            TokM::Comp(comp(&format!("{ch}salt"), None))
        }
    };
    let step = BlockM::Step(vec![word("Add", false), StepTok { space_before: true, tok }, word("now", true)]);
    let i = (pos as usize * (m.blocks.len() + 1)) >> 16;
    m.blocks.insert(i, step);
}

/// `@&(1)dough{}`: with INTERMEDIATE off it is, under MODIFIERS, a plain `&` reference to an ingredient
/// named `(1)dough`, and without MODIFIERS an ingredient named `&(1)dough`
fn intermediate_models(m: &RecipeM, variant: u8) -> (RecipeM, RecipeM) {
    let inner = ["(1)", "(=1)", "(2)"][variant as usize % 3];
    let comp = |name: String, mods: u16| CompM { kind: Kind::Ingredient, mods, inter: None, name, alias: None, qty: None, note: None, braces: true };
    let word = |w: &str, sp: bool| StepTok { space_before: sp, tok: TokM::Word(w.into()) };
    let def = BlockM::Step(vec![word("Make", false), StepTok { space_before: true, tok: TokM::Comp(comp(format!("{inner}dough"), 0)) }, word("then", true)]);
    let mut core = m.clone();
    core.blocks.push(def.clone());
    core.blocks.push(BlockM::Step(vec![word("Add", false), StepTok { space_before: true, tok: TokM::Comp(comp(format!("&{inner}dough"), 0)) }, word("now", true)]));
    let mut ext = m.clone();
    ext.level = Level::Ext;
    ext.blocks.push(def);
    ext.blocks.push(BlockM::Step(vec![word("Add", false), StepTok { space_before: true, tok: TokM::Comp(comp(format!("{inner}dough"), M_REF)) }, word("now", true)]));
    (core, ext)
}

fn check_converse(c: &ConverseCase, st: &mut Stats) -> Verdict {
    let mut m = build(&c.raw, false);
    let sample = c.sample % 8;
    let mut with_modifiers: Option<RecipeM> = None;
    if sample == 7 {
        let (core, ext) = intermediate_models(&m, c.variant);
        if print_recipe(&core, &c.raw.tape).0 != print_recipe(&ext, &c.raw.tape).0 {
            st.exclude("the two readings do not print identically");
            return Ok(());
        }
        m = core;
        with_modifiers = Some(ext);
    } else {
        inject(&mut m, sample, c.variant, c.pos);
    }
    let (src, _) = print_recipe(&m, &c.raw.tape);
    st.class(&format!("converse: {}", SAMPLES[sample as usize].1));
    st.nontrivial(&src);
    st.sample(|| json!({"sample": SAMPLES[sample as usize].1, "source": src}));
    let expected_plain = expected_image(&m, &ExpectOpts { inline: false });
    let expected_mod = with_modifiers.as_ref().map(|e| expected_image(e, &ExpectOpts { inline: false }));
    let lacking = sample_ext(sample);
    for idx in 0..N_EXT {
        if ALL_EXTS[idx].contains(lacking) {
            continue;
        }
        let expected = match &expected_mod {
            Some(e) if ALL_EXTS[idx].contains(Extensions::COMPONENT_MODIFIERS) => e,
            _ => &expected_plain,
        };
        let res = match guard(|| parser(idx, 1).parse(&src)) {
            Ok(r) => r,
            Err(p) => vbail!("c02.panic", "parse panicked under {}: {p}; source {src:?}", ext_name(idx)),
        };
        let errors: Vec<String> = res.report().errors().map(|e| e.message.to_string()).collect();
        vensure!(
            errors.is_empty() && res.output().is_some(),
            format!("c02.converse-error.{}", SAMPLES[sample as usize].0),
            "{} must read as core text when its extension is off, but {} reports {errors:?}; source {src:?}",
            SAMPLES[sample as usize].1,
            ext_name(idx)
        );
        meta_only_agrees(idx, &src, &res, &format!("c02.converse-metadata-only-differs.{}", SAMPLES[sample as usize].0))?;
        let actual = actual_image(res.output().unwrap()).map_err(|e| Violation::new("c02.image", e))?;
        if let Some((what, d)) = diff(expected, &actual) {
            vbail!(
                format!("c02.converse-mismatch.{}.{what}", SAMPLES[sample as usize].0),
                "{} with its extension off under {}: {d}; source {src:?}",
                SAMPLES[sample as usize].1,
                ext_name(idx)
            );
        }
    }
    Ok(())
}

/// Source snippets that look like special syntax but are not (or only for the named extensions): under every
/// subset without those extensions they must read exactly as they do without any extension.
/// (snippet, extensions that may reinterpret it, is a whole line)
fn literals() -> Vec<(&'static str, Extensions, bool)> {
    let none = Extensions::empty();
    vec![
        ("@flour{2[- heaped -]cups}", none, false),
        ("@milk{1[- c -]glass}", none, false),
        ("#pan{1[- big -]large}", none, false),
        ("~{5[- c -]min}", Extensions::TIMER_REQUIRES_TIME | Extensions::ADVANCED_UNITS, false),
        ("@x{1/0-x}", none, false),
        ("@x{2-x%kg}", none, false),
        ("@x{1/2-some}", none, false),
        ("@x{1 1/2cups}", none, false),
        ("@x{01/2}", none, false),
        ("@x{.5%kg}", none, false),
        ("@x{=1%kg}", none, false),
        ("@x{1\n%kg}", none, false),
        ("@x{\n}", none, false),
        ("@salt{1%tsp.}", none, false),
        ("~-rest{5%min}", Extensions::COMPONENT_MODIFIERS, false),
        ("~+a{5%min}", Extensions::COMPONENT_MODIFIERS, false),
        ("~&t{1%min}", Extensions::COMPONENT_MODIFIERS, false),
        ("@(1)dough{}", none, false),
        ("#pan(big)", none, false),
        ("@a{1%kg}(n)(m)", none, false),
        (">> [mode: steps", none, true),
        (">> mode]: steps", none, true),
        (">> []: x", Extensions::MODES, true),
        ("= = =", none, true),
        ("> >> k: v", none, true),
        ("to \u{2212}5 degrees", none, false),
        ("the @cookies{} @ the market", none, false),
        ("in # pieces and wait ~ a while", none, false),
        ("@ # ~ ( ) | % & + - ? = >", none, false),
        ("@salt+@pepper", Extensions::COMPONENT_MODIFIERS, false),
        ("1/2 cup of 2-3 things", Extensions::INLINE_QUANTITIES, false),
        // a path-like name points to another recipe: core syntax, no modifier involved
        ("@./sauces/pesto{2%tbsp}", none, false),
        ("@../base/dough{}", none, false),
        ("@.\\win\\stock{1%l}", none, false),
        ("@./a b/c d{}", none, false),
        // marker + modifier characters without a component behind them ("a modifier character right
        // after the marker": only compared among the subsets without the modifier extensions)
        ("Season to taste @?? maybe", Extensions::COMPONENT_MODIFIERS, false),
        ("@++ if you like", Extensions::COMPONENT_MODIFIERS, false),
        ("(as said @&(above) already)", Extensions::COMPONENT_MODIFIERS | Extensions::INTERMEDIATE_PREPARATIONS, false),
        ("#?? or ~&& nothing", Extensions::COMPONENT_MODIFIERS, false),
        // a comment glued to a component: the text run between components holds nothing
        ("@flour{1%kg}[- sifted -]@water{2%l}", none, false),
        ("@salt{1%pinch}-- x", none, false),
        ("[- c -]@eggs{3}", none, false),
        ("#pan{}[- a -][- b -]~{5%min}", none, false),
        // number, blank, word in cookware braces: text without ADVANCED_UNITS
        ("#pan{2 large}", Extensions::ADVANCED_UNITS, false),
        ("#trays{1 1/2 dozen}", Extensions::ADVANCED_UNITS, false),
        ("~{2 eggs}", Extensions::ADVANCED_UNITS | Extensions::TIMER_REQUIRES_TIME, false),
        // dashes that are not the ASCII minus are ordinary punctuation: no range, no hidden modifier
        ("@eggs{2–3}", none, false),
        ("#tins{1–2}", none, false),
        ("@stock{=1—2%l}", none, false),
        ("@‐salt{}", none, false),
        ("#‒pan{} and ~―rest{5%min}", none, false),
        // a number followed by blanks, a line break or a comment and nothing else: no unit at all
        ("@eggs{2 }", none, false),
        ("@milk{ 1/2 }", none, false),
        ("@sugar{2\n}", none, false),
        ("#ramekins{4 }", none, false),
        ("@x{3 [- c -]}", none, false),
        // a `>>` line is text when the document has a front matter; otherwise an entry (both are core)
        ("mix\n>> k: v\nserve", none, true),
    ]
}

#[derive(Debug, Clone, Serialize, Deserialize)]
pub struct LiteralCase {
    pub raw: RawRecipe,
    pub literal: u8,
    pub pos: u16,
}

fn check_literal(c: &LiteralCase, st: &mut Stats) -> Verdict {
    let lits = literals();
    let (lit, may, line) = lits[c.literal as usize % lits.len()];
    let mut m = build(&c.raw, false);
    // keep the recipe free of front matter so that `>>` lines are metadata lines
    if line {
        m.front = None;
        m.blocks.retain(|b| !matches!(b, BlockM::StepLine(_)));
    }
    let (base_src, _) = print_recipe(&m, &c.raw.tape);
    let base_src = base_src.replace("\r\n", "\n");
    let block = if line { format!("{lit}\n\n") } else { format!("Take {lit} now.\n\n") };
    // insert at a block boundary
    let mut points = vec![0usize];
    let bytes = base_src.as_bytes();
    for i in 0..base_src.len().saturating_sub(1) {
        if bytes[i] == b'\n' && bytes[i + 1] == b'\n' {
            points.push(i + 2);
        }
    }
    // (with a front matter: appended, the front matter has to stay at the top)
    let src = if m.front.is_some() {
        format!("{}\n\n{block}", base_src.trim_end_matches('\n'))
    } else {
        let at = points[(c.pos as usize * points.len()) >> 16];
        format!("{}{block}{}", &base_src[..at], &base_src[at..])
    };
    st.class(lit);
    st.nontrivial(&src);
    st.sample(|| json!({"literal": lit, "source": src}));
    let base = match guard(|| parser(EXT_EMPTY, 1).parse(&src)) {
        Ok(r) => r,
        Err(p) => vbail!("c02.panic", "parse panicked: {p}; source {src:?}"),
    };
    let base_img = result_image(&base);
    for idx in 0..N_EXT {
        if ALL_EXTS[idx].intersects(may) {
            continue;
        }
        let res = match guard(|| parser(idx, 1).parse(&src)) {
            Ok(r) => r,
            Err(p) => vbail!("c02.panic", "parse panicked under {}: {p}; source {src:?}", ext_name(idx)),
        };
        let img = result_image(&res);
        vensure!(
            img == base_img,
            "c02.literal-differs",
            "`{lit}` is not special syntax of {}, yet the result differs from the one without extensions\n with: {}\n without: {}\n source {src:?}",
            ext_name(idx),
            truncate(&img, 1500),
            truncate(&base_img, 1500)
        );
        meta_only_agrees(idx, &src, &res, "c02.metadata-only-differs")?;
    }
    Ok(())
}

fn converse_strategy() -> impl Strategy<Value = ConverseCase> {
    (raw_recipe(Some(false)), 0u8..8, any::<u8>(), any::<u16>()).prop_map(|(raw, sample, variant, pos)| ConverseCase { raw, sample, variant, pos })
}

pub fn run(tier: Tier) -> i32 {
    let mut run = Run::new("C02", tier);
    run.assume("bundled converter for every subset (ADVANCED_UNITS documents unit checks; timers carry a numeric value and a bundled time unit)");
    run.assume("the vocabulary of plain text words is disjoint from the unit keys of the bundled converter (asserted at start-up), so no number + known unit phrase occurs by accident");
    for w in TEXT_WORDS {
        assert!(BUNDLED.find_unit(w).is_none(), "text word {w} is a unit key");
    }
    run.replay_regressions(&|part, j| {
        if part == "literals" {
            return check_literal(&case_from::<LiteralCase>(j)?, &mut Stats::default());
        }
        if part.starts_with("converse") {
            check_converse(&case_from::<ConverseCase>(j)?, &mut Stats::default())
        } else {
            check_core_everywhere(&case_from::<RawRecipe>(j)?, &mut Stats::default())
        }
    });
    if !run.failed() {
        run_prop(
            &mut run,
            "core-192",
            "generated Core-level recipe, random spelling, parsed under all 192 distinct extension subsets: no error, JSON image of the output and the ordered diagnostics (severity, stage, message, labels, hints) equal to those without extensions, the metadata-only parse reads the same entries under every subset, and the no-extension output equals the reference model; non-trivial = at least 2 kinds of components; distinct = distinct source",
            || raw_recipe(Some(false)),
            tier.pick(1_500, 100_000),
            check_core_everywhere,
        );
    }
    if !run.failed() {
        run_prop(
            &mut run,
            "converse",
            "one documented special syntax (alias pipe, range, unit without %, bracketed mode key, number+unit in text, timer without duration, modifier character, `&(n)` with intermediate preparations off but modifiers on or off) placed in a generated Core recipe; parsed under every subset lacking that extension; must equal the core reading computed by the reference resolver, and the metadata-only parse must read the same entries as the full parse; every case is non-trivial",
            converse_strategy,
            tier.pick(2_500, 150_000),
            check_converse,
        );
    }
    if !run.failed() {
        run_prop(
            &mut run,
            "literals",
            "snippets that resemble special syntax without being it (a comment glued between number and word, half ranges, modifier characters after `~`, one-sided bracket keys, odd section and text lines, ...) placed in a generated Core recipe; under every subset that lacks the extensions which may reinterpret the snippet (for most: all 192) the JSON image and ordered diagnostics equal those without extensions; every case is non-trivial",
            || (raw_recipe(Some(false)), any::<u8>(), any::<u16>()).prop_map(|(raw, literal, pos)| LiteralCase { raw, literal, pos }),
            tier.pick(1_500, 100_000),
            check_literal,
        );
    }
    run.finish()
}

pub fn replay(part: &str, j: &serde_json::Value) -> Verdict {
    if part == "literals" {
        return check_literal(&case_from::<LiteralCase>(j)?, &mut Stats::default());
    }
    if part.starts_with("converse") {
        check_converse(&case_from::<ConverseCase>(j)?, &mut Stats::default())
    } else {
        check_core_everywhere(&case_from::<RawRecipe>(j)?, &mut Stats::default())
    }
}
