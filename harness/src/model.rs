//! E1: abstract recipe model (what the author *means*), independent of spelling.

use serde::{Deserialize, Serialize};

#[derive(Debug, Clone, Copy, PartialEq, Eq, Serialize, Deserialize, Hash)]
pub enum Level {
    /// canonical syntax only, none of the constructs extensions reinterpret
    Core,
    /// all extensions
    Ext,
}

pub const M_RECIPE: u16 = 1 << 0;
pub const M_REF: u16 = 1 << 1;
pub const M_HIDDEN: u16 = 1 << 2;
pub const M_OPT: u16 = 1 << 3;
pub const M_NEW: u16 = 1 << 4;

#[derive(Debug, Clone, PartialEq, Serialize, Deserialize)]
pub enum NumM {
    Int(u32),
    /// literal decimal text such as "1.5", ".5", "0.05"
    Dec(String),
    Frac(u32, u32),
    Mixed(u32, u32, u32),
}

#[derive(Debug, Clone, PartialEq, Serialize, Deserialize)]
pub enum ValM {
    Num(NumM),
    Range(NumM, NumM),
    Text(String),
}

impl ValM {
    pub fn is_text(&self) -> bool {
        matches!(self, ValM::Text(_))
    }
}

#[derive(Debug, Clone, PartialEq, Serialize, Deserialize)]
pub struct QtyM {
    pub lock: bool,
    pub value: ValM,
    pub unit: Option<String>,
    /// Ext only: written `1 kg` instead of `1%kg`
    pub blank_sep: bool,
}

#[derive(Debug, Clone, Copy, PartialEq, Eq, Serialize, Deserialize)]
pub enum InterM {
    StepNumber(u16),
    StepBack(u16),
    SectionNumber(u16),
    SectionBack(u16),
}

#[derive(Debug, Clone, Copy, PartialEq, Eq, Serialize, Deserialize)]
pub enum Kind {
    Ingredient,
    Cookware,
}

#[derive(Debug, Clone, PartialEq, Serialize, Deserialize)]
pub struct CompM {
    pub kind: Kind,
    /// modifier bits as written (REF included when `&` is written)
    pub mods: u16,
    pub inter: Option<InterM>,
    pub name: String,
    pub alias: Option<String>,
    pub qty: Option<QtyM>,
    pub note: Option<String>,
    /// written with braces (forced when the name is not a single plain word or it has alias/qty)
    pub braces: bool,
}

#[derive(Debug, Clone, PartialEq, Serialize, Deserialize)]
pub struct TimerM {
    pub name: Option<String>,
    pub qty: Option<QtyM>,
    pub braces: bool,
}

#[derive(Debug, Clone, PartialEq, Serialize, Deserialize)]
pub enum TokM {
    Word(String),
    /// punctuation that is harmless unescaped
    Punct(String),
    /// a character that must be written with a backslash in step text
    Escaped(char),
    /// number in plain text; always followed by a blank and a vocabulary word
    Num(String),
    Comp(CompM),
    Timer(TimerM),
    /// number + known unit in the text (an inline quantity when INLINE_QUANTITIES is on)
    Inline { number: String, unit: String, glued: bool },
    /// source kept verbatim: a component written inside a text-mode step, which the parser ignores (with a
    /// warning) and keeps as the text it was written as
    Raw(String),
}

#[derive(Debug, Clone, PartialEq, Serialize, Deserialize)]
pub struct StepTok {
    pub space_before: bool,
    pub tok: TokM,
}

#[derive(Debug, Clone, Copy, PartialEq, Eq, Serialize, Deserialize)]
pub enum ModeM {
    All,
    Components,
    Steps,
    Text,
    DupNew,
    DupRef,
}

#[derive(Debug, Clone, PartialEq, Serialize, Deserialize)]
pub enum BlockM {
    Section(Option<String>),
    Step(Vec<StepTok>),
    /// text paragraph: lines of words
    Text(Vec<String>),
    Mode(ModeM),
    /// `>> key: value` (only when the recipe has no front matter)
    Meta(String, String),
    /// a line starting with `>>` in a recipe WITH front matter: there it is an ordinary one-line step
    /// whose text is the whole line
    StepLine(String),
}

#[derive(Debug, Clone, PartialEq, Serialize, Deserialize)]
pub enum YamlM {
    Str(String),
    Int(i64),
    /// k/4, printed exactly
    Float(f64),
    Bool(bool),
    Null,
    List(Vec<YamlM>),
    Map(Vec<(String, YamlM)>),
}

#[derive(Debug, Clone, PartialEq, Serialize, Deserialize)]
pub struct RecipeM {
    pub level: Level,
    /// front matter entries (None = no front matter; `>>` entries are blocks)
    pub front: Option<Vec<(String, YamlM)>>,
    pub blocks: Vec<BlockM>,
}

impl YamlM {
    pub fn to_yaml(&self) -> serde_yaml::Value {
        use serde_yaml::Value as Y;
        match self {
            YamlM::Str(s) => Y::String(s.clone()),
            YamlM::Int(i) => Y::Number((*i).into()),
            YamlM::Float(f) => Y::Number((*f).into()),
            YamlM::Bool(b) => Y::Bool(*b),
            YamlM::Null => Y::Null,
            YamlM::List(v) => Y::Sequence(v.iter().map(|x| x.to_yaml()).collect()),
            YamlM::Map(v) => {
                let mut m = serde_yaml::Mapping::new();
                for (k, x) in v {
                    m.insert(Y::String(k.clone()), x.to_yaml());
                }
                Y::Mapping(m)
            }
        }
    }
}
