//! C18 — parsing is deterministic, stateless across calls and thread-safe.

use std::collections::HashMap;

use cooklang::CooklangParser;
use proptest::prelude::*;
use proptest::strategy::ValueTree;
use proptest::test_runner::{Config, RngAlgorithm, TestRng, TestRunner};
use serde::{Deserialize, Serialize};
use serde_json::json;

use crate::common::*;
use crate::pipeline::*;
use crate::recipe_inputs::recipe_input_strategy;
use crate::soup::*;
use crate::{vbail, vensure};

/// everything observable of a parse: output JSON, ordered diagnostics (severity, stage, message,
/// labels, hints), the rendered report, and the same for the metadata-only parse
pub fn full_image(p: &CooklangParser, src: &str) -> String {
    let res = p.parse(src);
    let mut s = crate::c02::result_image(&res);
    let mut buf = vec![];
    let _ = res.report().write("r.cook", src, false, &mut buf);
    s.push_str(&String::from_utf8_lossy(&buf));
    let meta = p.parse_metadata(src);
    s.push_str(&format!("{:?}", meta.output().map(|m| serde_json::to_string(m).unwrap_or_default())));
    for d in meta.report().iter() {
        s.push_str(&format!("{:?}|{}|{:?}|{:?}", d.severity, d.message, d.labels, d.hints));
    }
    s
}

/// the same with parse options: a pure metadata validator (excludes, skips checks, warns) on both entry points
pub fn full_image_with_options(p: &CooklangParser, src: &str) -> String {
    let res = p.parse_with_options(src, test_options());
    let mut s = crate::c02::result_image(&res);
    let meta = p.parse_metadata_with_options(src, test_options());
    s.push_str(&format!("{:?}", meta.output().map(|m| serde_json::to_string(m).unwrap_or_default())));
    for d in meta.report().iter() {
        s.push_str(&format!("{:?}|{}|{:?}|{:?}", d.severity, d.message, d.labels, d.hints));
    }
    s
}

pub fn image_in_mode(p: &CooklangParser, src: &str, with_options: bool) -> String {
    if with_options {
        full_image_with_options(p, src)
    } else {
        full_image(p, src)
    }
}

#[derive(Debug, Clone, Serialize, Deserialize)]
pub struct History {
    pub inputs: Vec<Vec<String>>,
    pub order: Vec<u8>,
    pub ext: usize,
    pub conv: u8,
}

fn check_history(h: &History, st: &mut Stats) -> Verdict {
    if h.inputs.is_empty() {
        return Ok(());
    }
    let shared = parser(h.ext, h.conv); // also used concurrently by every other worker thread
    let srcs: Vec<String> = h.inputs.iter().map(|p| p.concat()).collect();
    // slot 2*i: plain parse of input i, slot 2*i+1: parse with options (a quarter of the calls)
    let mut first: Vec<Option<String>> = vec![None; srcs.len() * 2];
    let mut repeats = 0;
    for k in &h.order {
        let i = *k as usize % srcs.len();
        let with_options = *k >= 192;
        let slot = i * 2 + with_options as usize;
        st.class_if(with_options, "call-with-parse-options");
        let img = match guard(|| image_in_mode(shared, &srcs[i], with_options)) {
            Ok(i) => i,
            Err(_) => {
                st.exclude("parse panicked (C03's business)");
                return Ok(());
            }
        };
        match &first[slot] {
            None => {
                // against a fresh parser
                let fresh = CooklangParser::new(ALL_EXTS[h.ext], converter(h.conv).clone());
                let f = image_in_mode(&fresh, &srcs[i], with_options);
                vensure!(
                    f == img,
                    "c18.depends-on-history",
                    "the result on a long-lived shared parser differs from the result on a fresh parser\n shared {}\n fresh  {}\n input {:?}\n history {:?}",
                    truncate(&img, 1200), truncate(&f, 1200), srcs[i], h
                );
                first[slot] = Some(img);
            }
            Some(prev) => {
                repeats += 1;
                vensure!(
                    *prev == img,
                    "c18.repeat-differs",
                    "repeating a parse gave a different result\n first {}\n now   {}\n input {:?}",
                    truncate(prev, 1200), truncate(&img, 1200), srcs[i]
                );
            }
        }
    }
    if repeats > 0 {
        st.nontrivial(&format!("{:?}{:?}{}{}", srcs, h.order, h.ext, h.conv));
    }
    Ok(())
}

/// deterministic batch of inputs (a pure function of the seed)
pub fn batch(seed: u64, n: usize) -> Vec<InputCase> {
    let mut bytes = [0u8; 32];
    bytes[..8].copy_from_slice(&seed.to_le_bytes());
    bytes[8..16].copy_from_slice(&0xC18C18u64.to_le_bytes());
    let mut runner = TestRunner::new_with_rng(Config::default(), TestRng::from_seed(RngAlgorithm::ChaCha, &bytes));
    let mut out = vec![];
    let s1 = recipe_input_strategy(false);
    let s2 = recipe_input_strategy(true);
    let s3 = lines_strategy();
    // inputs that would expose per-thread caches keyed on too little
    let fixed = [
        "Weigh 2.1.3 g of it and 10.11.2024 kg more", "Add 5 g of salt and 3 kg of flour", ">> prep time: 10 min\n>> cook time: 1h\n>> time: 2h\n\nMix @a{1%g} and @&a{2%cups}",
        "bake at 180 ºC for 5 minutes", "@a{1%bag} @&a{1%cloves} @&a{2%kg} @&a{x}", ">> [mode]: steps\n@x{} @y{}",
    ];
    for f in fixed {
        out.push(InputCase { pieces: vec![f.to_string()], ext: EXT_ALL, conv: 1 });
    }
    for i in 0..n {
        let c = match i % 3 {
            0 => s1.new_tree(&mut runner).unwrap().current(),
            1 => s2.new_tree(&mut runner).unwrap().current(),
            _ => s3.new_tree(&mut runner).unwrap().current(),
        };
        out.push(c);
    }
    // repeats of the fixed ones at the end so that order matters for caches
    for f in fixed {
        out.push(InputCase { pieces: vec![f.to_string()], ext: EXT_ALL, conv: 1 });
    }
    out
}

pub fn digest(seed: u64, n: usize) -> u64 {
    let b = batch(seed, n);
    let mut h: u64 = 0xcbf29ce484222325;
    for c in &b {
        let img = guard(|| full_image(parser(c.ext, c.conv), &c.input())).unwrap_or_else(|p| format!("panic:{p}"));
        h ^= fnv(&img);
        h = h.rotate_left(5).wrapping_mul(0x100000001b3);
    }
    h
}

pub fn digest_main(args: &[String]) -> i32 {
    let seed: u64 = args.get(3).and_then(|s| s.parse().ok()).unwrap_or(0);
    let n: usize = args.get(4).and_then(|s| s.parse().ok()).unwrap_or(100);
    println!("DIGEST {}", digest(seed, n));
    0
}

fn threads_part(run: &mut Run, n: usize, threads: usize) {
    let b = batch(run.seed, n);
    let mut st = Stats::default();
    // baseline: fresh parsers, this thread, batch order
    let base: Vec<String> = b
        .iter()
        .map(|c| {
            let fresh = CooklangParser::new(ALL_EXTS[c.ext], converter(c.conv).clone());
            guard(|| full_image(&fresh, &c.input())).unwrap_or_else(|p| format!("panic:{p}"))
        })
        .collect();
    let results: Vec<Vec<(usize, String)>> = std::thread::scope(|s| {
        let hs: Vec<_> = (0..threads)
            .map(|t| {
                let b = &b;
                s.spawn(move || {
                    let mut out = vec![];
                    for k in 0..b.len() {
                        // rotated and, for odd threads, reversed order
                        let i = if t % 2 == 0 { (k + t * 7) % b.len() } else { (b.len() * 2 - 1 - k - t * 5) % b.len() };
                        let c = &b[i];
                        let p = parser(c.ext, c.conv);
                        let src = c.input();
                        let img = guard(|| {
                            let img = full_image(p, &src);
                            // touch the lazily initialised fraction table concurrently
                            if let Some(r) = p.parse(&src).into_output() {
                                let mut s = r.scale(1.5, converter(c.conv));
                                let _ = s.convert(cooklang::convert::System::Imperial, converter(c.conv));
                            }
                            img
                        })
                        .unwrap_or_else(|p| format!("panic:{p}"));
                        out.push((i, img));
                    }
                    out
                })
            })
            .collect();
        hs.into_iter().map(|h| h.join().unwrap()).collect()
    });
    let mut fail = None;
    'outer: for (t, r) in results.iter().enumerate() {
        for (i, img) in r {
            st.eval();
            if *img != base[*i] {
                fail = Some((
                    Violation::new(
                        "c18.thread-result-differs",
                        format!("thread {t} sharing the parser got a different result than the single-threaded fresh-parser baseline\n thread   {}\n baseline {}\n input {:?}", truncate(img, 1500), truncate(&base[*i], 1500), b[*i].input()),
                    ),
                    serde_json::to_value(&b[*i]).unwrap(),
                ));
                break 'outer;
            }
        }
    }
    for c in &b {
        st.nontrivial(&c.input());
    }
    st.sample(|| b[6].describe());
    run.add_part(
        "threads",
        &format!("a batch of {} generated inputs (recipes, mutated recipes, line documents, cache-probing fixed inputs at both ends) parsed by {threads} threads sharing one parser per configuration, each in its own rotated / reversed order, interleaved with scaling and conversion; every image must equal the baseline computed on fresh parsers by one thread; non-trivial = every input; distinct = distinct input", b.len()),
        st,
        false,
    );
    if let Some((v, case)) = fail {
        run.fail("threads", v, case);
    }
}

/// The result may depend only on the input *text*: the same text parsed as a sub-slice at eight
/// different addresses (offsets 0..8 into a buffer) must give the same image.
fn placement_part(run: &mut Run, n: usize) {
    let b = batch(run.seed ^ 0x51ace, n);
    let mut st = Stats::default();
    let mut fail = None;
    'outer: for c in &b {
        let src = c.input();
        let p = parser(c.ext, c.conv);
        let base = match guard(|| full_image(p, &src)) {
            Ok(i) => i,
            Err(_) => continue,
        };
        // variants of the tail matter too (the end of the input relative to alignment)
        for pad in 0..8usize {
            st.eval();
            let mut buf = String::with_capacity(src.len() + 16);
            buf.push_str(&"x".repeat(pad));
            buf.push_str(&src);
            let img = guard(|| full_image(p, &buf[pad..])).unwrap_or_else(|e| format!("panic:{e}"));
            if img != base {
                fail = Some((
                    Violation::new("c18.depends-on-placement", format!("the same text parsed from a buffer at offset {pad} gives a different result\n there {}\n whole  {}\n input {src:?}", truncate(&img, 1200), truncate(&base, 1200))),
                    serde_json::to_value(c).unwrap(),
                ));
                break 'outer;
            }
        }
        st.nontrivial(&src);
    }
    st.sample(|| b[7].describe());
    run.add_part("placement", "every input of a batch parsed as a sub-slice at offsets 0..8 of a buffer (different alignment of its start and end): the image must not depend on where the text lives; distinct = distinct input", st, false);
    if let Some((v, case)) = fail {
        run.fail("placement", v, case);
    }
}

/// texts of equal length that differ in single bytes, derived from one input (ASCII positions only)
fn equal_length_variants(src: &str) -> Vec<String> {
    let bytes = src.as_bytes();
    let mut positions: Vec<usize> = (0..bytes.len().min(8)).collect();
    // the start of every line, and a few positions spread over the text
    positions.extend(src.match_indices('\n').map(|(i, _)| i + 1).filter(|i| *i < bytes.len()).take(12));
    positions.extend((1..6).map(|k| k * bytes.len() / 6).filter(|i| *i < bytes.len()));
    positions.sort();
    positions.dedup();
    let mut out = vec![src.to_string()];
    for (n, i) in positions.into_iter().enumerate() {
        if !bytes[i].is_ascii() {
            continue;
        }
        let repl = [b'x', b'-', b' ', b'@', b'\n', b'>', b'=', b'1'][n % 8];
        if repl == bytes[i] {
            continue;
        }
        let mut v = bytes.to_vec();
        v[i] = repl;
        if let Ok(t) = String::from_utf8(v) {
            out.push(t);
        }
    }
    out
}

/// The result depends on the text, not on the memory it is read from: one buffer is cleared and
/// refilled (same address, same length) with texts that differ in single bytes - the fence of a front
/// matter, a marker, a line break - and parsed after each refill.
fn check_buffer_reuse(c: &InputCase, st: &mut Stats) -> Verdict {
    let src = c.input();
    let p = parser(c.ext, c.conv);
    let variants = equal_length_variants(&src);
    if variants.len() < 2 {
        return Ok(());
    }
    // reference images first, each from its own allocation; nothing else is parsed in between afterwards
    let Ok(reference) = guard(|| variants.iter().map(|v| full_image(p, v)).collect::<Vec<_>>()) else { return Ok(()) };
    let mut buf = String::with_capacity(src.len() + 8);
    let order: Vec<usize> = (0..variants.len()).chain((0..variants.len()).rev()).collect();
    let mut address = None;
    for i in order {
        buf.clear();
        buf.push_str(&variants[i]);
        st.class_if(address == Some(buf.as_ptr()), "refill at the same address and length");
        address = Some(buf.as_ptr());
        st.eval();
        let img = guard(|| full_image(p, &buf)).unwrap_or_else(|e| format!("panic:{e}"));
        vensure!(
            img == reference[i],
            "c18.depends-on-placement",
            "a text parsed from a buffer that held another text of the same length before gives a different result than the same text elsewhere\n {}\n text {:?}\n first text of the buffer {:?}",
            first_diff(&reference[i], &img), variants[i], src
        );
    }
    st.class_if(src.contains("---"), "input with a fence line");
    st.nontrivial(&src);
    Ok(())
}

fn buffer_reuse_part(run: &mut Run, n: usize) {
    let mut b = batch(run.seed ^ 0xb0ff, n);
    for f in ["---\ntitle: x\n---\nMix @a{1%kg}.\n", "---\na: 1\n---\n\n---\nb: 2\n---\n@x{}\n", ">> a: b\n---\nc: d\n---\nstep\n", "\u{feff}\n---\nk: v\n---\n= s\ntext\n"] {
        b.push(InputCase { pieces: vec![f.to_string()], ext: EXT_ALL, conv: 1 });
    }
    let mut st = Stats::default();
    let mut fail = None;
    for c in &b {
        if let Err(v) = check_buffer_reuse(c, &mut st) {
            fail = Some((v, serde_json::to_value(c).unwrap()));
            break;
        }
    }
    st.sample(|| b[3].describe());
    run.add_part("buffer-reuse", "every input of a batch (plus front-matter documents) and up to 25 texts of the same length that differ from it in one byte (first bytes, line starts, spread positions; replaced by x - blank @ LF > = 1) are written one after the other into the same buffer (same address, same length) and parsed from there, forwards and backwards; each image must equal the image of that text parsed from its own allocation beforehand; distinct = distinct input", st, false);
    if let Some((v, case)) = fail {
        run.fail("buffer-reuse", v, case);
    }
}

/// parse_with_options with a recipe-reference checker, concurrently from 16 threads
fn options_part(run: &mut Run, n: usize) {
    use cooklang::analysis::CheckResult;
    use cooklang::ParseOptions;
    let mut srcs: Vec<String> = batch(run.seed ^ 0x0b7, n).into_iter().filter(|c| c.ext == EXT_ALL).map(|c| c.input()).filter(|s| s.contains("@@")).collect();
    srcs.push("Add @@tomato sauce{200%ml} and @@pesto{}.".to_string());
    srcs.push("Use @@./sub/dough{} then @@missing{1}".to_string());
    let p = parser(EXT_ALL, 1);
    let image = |src: &str| -> String {
        let opts = ParseOptions {
            recipe_ref_check: Some(Box::new(|name: &str| {
                // a checker that takes a moment, like a file system lookup
                let mut x = 0u64;
                for i in 0..20_000u64 {
                    x = x.wrapping_mul(31).wrapping_add(i);
                }
                if name.len() % 2 == 0 || x == 1 {
                    CheckResult::Error(vec!["not found".into()])
                } else {
                    CheckResult::Ok
                }
            })),
            metadata_validator: None,
        };
        let res = p.parse_with_options(src, opts);
        crate::c02::result_image(&res)
    };
    let base: Vec<String> = srcs.iter().map(|s| guard(|| image(s)).unwrap_or_else(|e| format!("panic:{e}"))).collect();
    let mut st = Stats::default();
    let results: Vec<Vec<(usize, String)>> = std::thread::scope(|s| {
        let hs: Vec<_> = (0..16)
            .map(|t| {
                let (srcs, image) = (&srcs, &image);
                s.spawn(move || {
                    let mut out = vec![];
                    for round in 0..6 {
                        for k in 0..srcs.len() {
                            let i = (k + t * 3 + round) % srcs.len();
                            out.push((i, guard(|| image(&srcs[i])).unwrap_or_else(|e| format!("panic:{e}"))));
                        }
                    }
                    out
                })
            })
            .collect();
        hs.into_iter().map(|h| h.join().unwrap()).collect()
    });
    let mut fail = None;
    'outer: for (t, r) in results.iter().enumerate() {
        for (i, img) in r {
            st.eval();
            if *img != base[*i] {
                fail = Some((
                    Violation::new("c18.thread-result-differs", format!("parse_with_options (recipe reference checker) on thread {t} differs from the same call made alone\n thread {}\n alone  {}\n input {:?}", truncate(img, 1200), truncate(&base[*i], 1200), srcs[*i])),
                    serde_json::json!({"pieces": [srcs[*i]], "ext": EXT_ALL, "conv": 1}),
                ));
                break 'outer;
            }
        }
    }
    for s in &srcs {
        st.nontrivial(s);
    }
    st.sample(|| json!(srcs[0]));
    run.add_part("options", &format!("{} inputs with `@@recipe` ingredients parsed with parse_with_options and a slow recipe-reference checker by 16 threads, 6 rounds each, against the same calls made alone", srcs.len()), st, false);
    if let Some((v, case)) = fail {
        run.fail("options", v, case);
    }
}

/// First use of a fresh parser from several threads at once: anything initialised lazily inside the
/// parser or its converter is initialised under contention here.
fn fresh_race_part(run: &mut Run, rounds: usize, threads: usize) {
    let mut srcs: Vec<String> = vec![
        "---\ntime: 1 hour 30 min\nservings: 2|4\n---\nMix @a{1%kg} and @b{1 1/2%cups} for ~{5%min}.".to_string(),
        ">> time: 2 h 5 min\n>> prep time: 10 minutes\n@flour{1 1/2%cups} ~{5%min} bake at 180 ºC".to_string(),
        ">> cook time: 1 day 2 hours\nAdd 5 g of salt and @&(~1)x{} then @water{250 ml}".to_string(),
        "---\nduration: 90 seconds\ntags: [a, b]\nauthor: A <https://a.b>\n---\n= S\n@x{1/3%lb} #pan{} @&x{2%oz}".to_string(),
    ];
    for c in batch(run.seed ^ 0xf4e5, 24).into_iter().filter(|c| c.ext == EXT_ALL && c.conv == 1).take(4) {
        srcs.push(c.input());
    }
    let image = |p: &CooklangParser, src: &str| -> String {
        guard(|| {
            let mut img = full_image(p, src);
            if let Some(r) = p.parse(src).into_output() {
                img.push_str(&format!("{:?}", r.metadata.time(p.converter())));
                let mut s = r.scale(1.5, p.converter());
                let _ = s.convert(cooklang::convert::System::Imperial, p.converter());
                img.push_str(&serde_json::to_string(&s).unwrap_or_default());
            }
            img
        })
        .unwrap_or_else(|e| format!("panic:{e}"))
    };
    let warmed = CooklangParser::new(ALL_EXTS[EXT_ALL], BUNDLED.clone());
    let base: Vec<String> = srcs.iter().map(|s| image(&warmed, s)).collect();
    let mut st = Stats::default();
    let mut fail = None;
    'outer: for r in 0..rounds {
        // a clone of a used converter, or one built from scratch: both must behave as fresh
        let fresh = if r % 2 == 0 { CooklangParser::new(ALL_EXTS[EXT_ALL], BUNDLED.clone()) } else { CooklangParser::new(ALL_EXTS[EXT_ALL], cooklang::Converter::bundled()) };
        let barrier = std::sync::Barrier::new(threads);
        let i = r % srcs.len();
        let imgs: Vec<String> = std::thread::scope(|s| {
            let hs: Vec<_> = (0..threads)
                .map(|_| {
                    let (fresh, barrier, src, image) = (&fresh, &barrier, &srcs[i], &image);
                    s.spawn(move || {
                        barrier.wait();
                        image(fresh, src)
                    })
                })
                .collect();
            hs.into_iter().map(|h| h.join().unwrap()).collect()
        });
        for img in &imgs {
            st.eval();
            if *img != base[i] {
                fail = Some((
                    Violation::new(
                        "c18.thread-result-differs",
                        format!("first use of a fresh parser from {threads} threads at once: one thread's result differs from the single-threaded result\n thread   {}\n baseline {}\n input {:?}", truncate(img, 1500), truncate(&base[i], 1500), srcs[i]),
                    ),
                    serde_json::json!({"pieces": [srcs[i]], "ext": EXT_ALL, "conv": 1}),
                ));
                break 'outer;
            }
        }
        st.nontrivial(&(r, i));
    }
    st.sample(|| json!(srcs[0]));
    run.add_part(
        "fresh-race",
        &format!("{rounds} rounds: a parser nobody has used yet (clone of the bundled converter or one built from scratch) is handed to {threads} threads that start parsing the same input (durations with units, fractions, inline quantities, references) at the same moment behind a barrier, then scale and convert; every result must equal the single-threaded one; non-trivial = every round"),
        st,
        false,
    );
    if let Some((v, case)) = fail {
        run.fail("fresh-race", v, case);
    }
}

/// Calls with and without parse options alternate on one parser, single-threaded (nothing else runs):
/// plain, with options, plain, with options. Equal calls must give equal results.
fn options_sequence_part(run: &mut Run, n: usize) {
    let mut b = batch(run.seed ^ 0x5e9, n);
    for f in [
        "---\ntitle: x\nservings: 4\ninternal id: 7\ntime: soon\n---\n@a{1%kg}",
        ">> servings: 2\n>> tags: a, b\n>> note: x\n@a{}",
        "---\nab: 1\nabc: 2\n---\n",
    ] {
        b.push(InputCase { pieces: vec![f.to_string()], ext: EXT_ALL, conv: 1 });
    }
    let mut st = Stats::default();
    let mut fail = None;
    for c in &b {
        let src = c.input();
        let p = CooklangParser::new(ALL_EXTS[c.ext], converter(c.conv).clone());
        let Ok(imgs) = guard(|| {
            let a0 = full_image(&p, &src);
            let o0 = full_image_with_options(&p, &src);
            let a1 = full_image(&p, &src);
            let o1 = full_image_with_options(&p, &src);
            let other = CooklangParser::new(ALL_EXTS[c.ext], converter(c.conv).clone());
            let a2 = full_image(&other, &src);
            (a0, o0, a1, o1, a2)
        }) else {
            continue;
        };
        st.eval();
        if src.contains(">>") || src.contains("---") {
            st.nontrivial(&src);
        }
        st.class_if(imgs.0 != imgs.1, "options-change-the-result");
        let (a0, o0, a1, o1, a2) = imgs;
        if a0 != a1 || o0 != o1 || a0 != a2 {
            let (x, y, what) = if a0 != a1 { (a0, a1, "a plain parse before and after a parse with options") } else if o0 != o1 { (o0, o1, "two parses with the same options") } else { (a0, a2, "a plain parse on this parser and on another parser afterwards") };
            fail = Some((
                Violation::new("c18.depends-on-history", format!("{what} differ\n first  {}\n second {}\n input {src:?}", truncate(&x, 1200), truncate(&y, 1200))),
                serde_json::to_value(c).unwrap(),
            ));
            break;
        }
    }
    st.sample(|| b[0].describe());
    run.add_part("options-sequence", "single-threaded: each input of a batch is parsed plain, with options (metadata validator excluding keys), plain, with options on one parser and plain on another parser; equal calls must give equal images; non-trivial = the input has `>>` or a fence", st, false);
    if let Some((v, case)) = fail {
        run.fail("options-sequence", v, case);
    }
}

/// The result depends on the text, the extensions and the converter only, so every way of asking for
/// the same parse gives the same result: the parser method, the method with default options, the
/// event stream handed to the analysis pass by hand, a parser made by the named constructors, and the
/// free function `cooklang::parse` (all extensions, bundled units).
fn entry_points_part(run: &mut Run, n: usize) {
    use cooklang::analysis::parse_events;
    use cooklang::parser::PullParser;
    use cooklang::ParseOptions;
    let b = batch(run.seed ^ 0xe9, n);
    let mut st = Stats::default();
    let mut fail = None;
    'outer: for c in &b {
        let src = c.input();
        let p = parser(c.ext, c.conv);
        let Ok(base) = guard(|| crate::c02::result_image(&p.parse(&src))) else { continue };
        let mut others: Vec<(&str, String)> = vec![];
        let r = guard(|| {
            let mut v = vec![
                ("parse_with_options(default options)", crate::c02::result_image(&p.parse_with_options(&src, ParseOptions::default()))),
                ("analysis::parse_events over a PullParser", crate::c02::result_image(&parse_events(PullParser::new(&src, ALL_EXTS[c.ext]), &src, ALL_EXTS[c.ext], converter(c.conv), ParseOptions::default()))),
            ];
            if c.ext == EXT_ALL && c.conv == 1 {
                v.push(("cooklang::parse", crate::c02::result_image(&cooklang::parse(&src))));
                v.push(("CooklangParser::extended()", crate::c02::result_image(&CooklangParser::extended().parse(&src))));
                v.push(("CooklangParser::default()", crate::c02::result_image(&CooklangParser::default().parse(&src))));
            }
            if c.ext == EXT_EMPTY && c.conv == 0 {
                v.push(("CooklangParser::canonical()", crate::c02::result_image(&CooklangParser::canonical().parse(&src))));
            }
            v
        });
        match r {
            Ok(v) => others = v,
            Err(e) => others.push(("another entry point", format!("panic:{e}"))),
        }
        st.class_if(c.ext == EXT_ALL && c.conv == 1, "all extensions + bundled units (free function and named constructors compared)");
        for (what, img) in &others {
            st.eval();
            if *img != base {
                fail = Some((
                    Violation::new("c18.entry-points-differ", format!("CooklangParser::parse and {what} give different results for the same text, extensions and converter\n parse {}\n other {}\n input {src:?}", truncate(&base, 1200), truncate(img, 1200))),
                    serde_json::to_value(c).unwrap(),
                ));
                break 'outer;
            }
        }
        st.nontrivial(&(src, c.ext, c.conv));
    }
    st.sample(|| b[0].describe());
    run.add_part("entry-points", "every input of a batch parsed through CooklangParser::parse, parse_with_options with default options, analysis::parse_events over a hand-made PullParser and, for the matching configurations, cooklang::parse / CooklangParser::extended() / default() / canonical(): all images (output JSON + ordered diagnostics) must be equal; distinct = distinct (input, configuration)", st, false);
    if let Some((v, case)) = fail {
        run.fail("entry-points", v, case);
    }
}

/// The FFI entry points keep no state either: calls with valid and invalid sources (the FFI panics on
/// those, by design of its `unwrap`s) alternate; every call with a valid source must return what it returned
/// before any invalid source was seen.
fn ffi_histories_part(run: &mut Run, n: usize) {
    use cooklang_bindings::{parse_metadata, parse_recipe};
    let canonical = parser(EXT_EMPTY, 0);
    let mut valid: Vec<String> = vec![
        ">> title: Soup\n>> servings: 2\nBoil @water{1%l} in a #pot for ~{10%minutes}.\n".to_string(),
        "---\ntitle: Bread\nauthor: me\n---\n= Dough\nMix @flour{1/2%kg} and @water{300%ml}.\n\n= Bake\nBake ~{45%min}.\n".to_string(),
        "Just text.\n".to_string(),
    ];
    for c in batch(run.seed ^ 0xff1, n).into_iter().filter(|c| c.ext == EXT_EMPTY) {
        let src = c.input();
        if guard(|| canonical.parse(&src).is_valid()).unwrap_or(false) && valid.len() < 40 {
            valid.push(src);
        }
    }
    let invalid = ["@flour{1/0%cup}", "@{}", "~{5}", "#pot{1%kg}", "---\na: [\n---\n"];
    let image = |src: &str, f: f64, meta_only: bool| -> Result<String, String> {
        guard(|| {
            if meta_only {
                let mut m: Vec<(String, String)> = parse_metadata(src.to_string(), f).into_iter().collect();
                m.sort();
                format!("{m:?}")
            } else {
                let r = parse_recipe(src.to_string(), f);
                let mut m: Vec<(&String, &String)> = r.metadata.iter().collect();
                m.sort();
                format!("{m:?}{:?}{:?}{:?}{:?}", r.sections, r.ingredients, r.cookware, r.timers)
            }
        })
    };
    let factors = [1.0, 2.0, 0.5];
    let mut st = Stats::default();
    let mut fail = None;
    // baseline before any invalid source is seen
    let mut base: Vec<Vec<Result<String, String>>> = vec![];
    for v in &valid {
        let mut row = vec![];
        for f in factors {
            row.push(image(v, f, false));
            row.push(image(v, f, true));
        }
        base.push(row);
    }
    let mut x = run.seed ^ 0x9e3779b97f4a7c15;
    let mut next = || {
        x ^= x << 13;
        x ^= x >> 7;
        x ^= x << 17;
        x
    };
    let steps = valid.len() * 12;
    let mut history: Vec<String> = vec![];
    for _ in 0..steps {
        let r = next();
        let meta_only = r & 1 == 1;
        let fi = (r >> 1) as usize % 3;
        if (r >> 8) % 4 == 0 {
            let bad = invalid[(r >> 16) as usize % invalid.len()];
            let _ = image(bad, factors[fi], meta_only);
            history.push(format!("{}({bad:?})", if meta_only { "parse_metadata" } else { "parse_recipe" }));
            continue;
        }
        let vi = (r >> 16) as usize % valid.len();
        st.eval();
        st.nontrivial(&(vi, fi, meta_only));
        let got = image(&valid[vi], factors[fi], meta_only);
        let want = &base[vi][fi * 2 + meta_only as usize];
        if got != *want && want.is_ok() {
            let tail: Vec<&String> = history.iter().rev().take(6).collect();
            fail = Some((
                Violation::new(
                    "c18.ffi-depends-on-history",
                    format!("{}({:?}, {}) returned {} before any invalid source was parsed and {} afterwards; the last calls before it (newest first): {tail:?}", if meta_only { "parse_metadata" } else { "parse_recipe" }, valid[vi], factors[fi], truncate(&format!("{want:?}"), 600), truncate(&format!("{got:?}"), 600)),
                ),
                json!({"source": valid[vi], "factor": factors[fi], "meta_only": meta_only}),
            ));
            break;
        }
        history.push(format!("{}(valid #{vi})", if meta_only { "parse_metadata" } else { "parse_recipe" }));
    }
    st.sample(|| json!(valid[0]));
    run.add_part("ffi-histories", &format!("{} canonically valid sources x 3 factors through the FFI parse_recipe / parse_metadata, {steps} calls in a pseudo-random order with calls on 5 invalid sources (which panic inside the FFI and are caught) mixed in: every result must equal the one obtained before any invalid source was parsed; non-trivial = every compared call", valid.len()), st, false);
    if let Some((v, case)) = fail {
        run.fail("ffi-histories", v, case);
    }
}

/// Many repetitions of one call, for each entry point on its own (no other entry point in between):
/// anything that counts, fills up or wears out across calls shows after enough of them.
fn repetition_part(run: &mut Run, reps: usize) {
    use cooklang::parser::PullParser;
    let mut srcs: Vec<String> = vec![
        // documents that produce many parser-stage diagnostics
        (0..60).map(|i| format!(">> : v{i}\n")).collect::<String>(),
        (0..40).map(|i| format!("@{{}} #{{}} ~{{}} @a{{1/0}} {i}\n\n")).collect::<String>(),
        (0..50).map(|i| format!(">> k{i}: v\n>> : w\n")).collect::<String>() + "@a{%kg} @&zz{}",
        "---\nservings: many\ntime: soon\nlocale: english\n---\n@&a{} @a|{} ~{5} #p{1%kg}\n".to_string(),
        "Mix @flour{1 1/2%cups} and @water{11/2%cups} and @salt{0 1/2%tsp} and @x{01/2}.\n".to_string(),
    ];
    for c in batch(run.seed ^ 0x4e9, 12).into_iter().take(6) {
        srcs.push(c.input());
    }
    let p = parser(EXT_ALL, 1);
    type Call = fn(&CooklangParser, &str) -> String;
    let calls: [(&str, Call); 4] = [
        ("parse_metadata", |p, s| {
            let m = p.parse_metadata(s);
            format!("{:?}{:?}", m.output().map(|m| serde_json::to_string(m).unwrap_or_default()), m.report().iter().map(|d| format!("{:?}|{}|{:?}", d.severity, d.message, d.labels)).collect::<Vec<_>>())
        }),
        ("parse", |p, s| crate::c02::result_image(&p.parse(s))),
        ("parse_with_options", |p, s| crate::c02::result_image(&p.parse_with_options(s, test_options()))),
        ("PullParser events", |p, s| format!("{:?}", PullParser::new(s, p.extensions()).collect::<Vec<_>>())),
    ];
    let mut st = Stats::default();
    let mut fail = None;
    'outer: for (name, call) in calls {
        for src in &srcs {
            let Ok(first) = guard(|| call(p, src)) else { continue };
            for k in 1..reps {
                st.eval();
                let again = guard(|| call(p, src)).unwrap_or_else(|e| format!("panic:{e}"));
                if again != first {
                    fail = Some((
                        Violation::new("c18.repeat-differs", format!("call #{} of {name} on the same input differs from the first one\n first {}\n now   {}\n input {src:?}", k + 1, truncate(&first, 1200), truncate(&again, 1200))),
                        serde_json::json!({"pieces": [src], "ext": EXT_ALL, "conv": 1}),
                    ));
                    break 'outer;
                }
            }
            st.nontrivial(&(name, src));
        }
    }
    st.sample(|| json!(srcs[3]));
    run.add_part("repetition", &format!("{} inputs (documents with dozens of parser-stage errors, look-alike quantities, generated ones), each passed {reps} times in a row to parse_metadata, then to parse, parse_with_options and the raw event stream - one entry point at a time, nothing else in between: every result must equal the first; non-trivial = every (entry point, input)", srcs.len()), st, false);
    if let Some((v, case)) = fail {
        run.fail("repetition", v, case);
    }
}


// ---------------------------------------------------------------------------
// sibling converters: parsers that differ in the converter only

const SIBLING_LAYERS: [&str; 7] = [
    "",
    "[extend.units]\nmin = { aliases = [\"minuto\", \"minutos\"] }\n",
    "[extend.units]\nh = { aliases = [\"hora\", \"horas\"] }\ng = { aliases = [\"gramo\"] }\n",
    "[[quantity]]\nquantity = \"time\"\nunits = [{ names = [\"fortnight\", \"fortnights\"], symbols = [\"fn\"], ratio = 1209600 }]\n",
    "[[quantity]]\nquantity = \"mass\"\nunits = [{ names = [\"minutos\"], symbols = [\"mns\"], ratio = 2 }]\n",
    "[[quantity]]\nquantity = \"time\"\nunits = [{ names = [\"gramo\"], symbols = [\"xyz\"], ratio = 7 }]\n",
    "[extend.units]\nkg = { aliases = [\"hora\", \"minuto\"] }\n",
];
const SIBLING_UNITS: [&str; 18] = ["min", "minutos", "minuto", "hora", "horas", "h", "fortnight", "fn", "gramo", "g", "kg", "s", "xyz", "mns", "cup", "minutes", "Min", "nope"];

fn sibling_parsers() -> &'static Vec<[CooklangParser; 2]> {
    static P: std::sync::OnceLock<Vec<[CooklangParser; 2]>> = std::sync::OnceLock::new();
    P.get_or_init(|| {
        SIBLING_LAYERS
            .iter()
            .map(|layer| {
                let mut b = cooklang::Converter::builder().with_units_file(cooklang::convert::UnitsFile::bundled()).expect("bundled units");
                if !layer.is_empty() {
                    b = b.with_units_file(toml::from_str(layer).expect("sibling layer parses")).expect("sibling layer is accepted");
                }
                let c = b.finish().expect("sibling converter builds");
                [CooklangParser::new(cooklang::Extensions::all(), c.clone()), CooklangParser::new(cooklang::Extensions::all() - cooklang::Extensions::ADVANCED_UNITS, c)]
            })
            .collect()
    })
}

/// (kind, value, unit): kind 0 `~{v%U}`, 1 `~t{v%U}`, 2 `@x{v%U}`, 3 `#pot{v}` + text
#[derive(Debug, Clone, Serialize, Deserialize)]
pub struct SiblingHistory {
    pub inputs: Vec<Vec<(u8, u16, u8)>>,
    /// (converter, without ADVANCED_UNITS, input)
    pub calls: Vec<(u8, bool, u8)>,
}

fn sibling_text(items: &[(u8, u16, u8)]) -> String {
    let mut s = String::new();
    for (k, v, u) in items {
        let unit = SIBLING_UNITS[*u as usize % SIBLING_UNITS.len()];
        match k % 4 {
            0 => s.push_str(&format!("Wait ~{{{v}%{unit}}} then ")),
            1 => s.push_str(&format!("rest ~t{{{v}%{unit}}} and ")),
            2 => s.push_str(&format!("add @x{{{v}%{unit}}}, ")),
            _ => s.push_str(&format!("in a #pot{{{v}}} for {v} {unit} ")),
        }
    }
    s.push_str("done.\n");
    s
}

fn check_siblings(h: &SiblingHistory, st: &mut Stats) -> Verdict {
    let parsers = sibling_parsers();
    let srcs: Vec<String> = h.inputs.iter().map(|i| sibling_text(i)).collect();
    let mut first: HashMap<(usize, bool, usize), String> = HashMap::new();
    let mut kinds = std::collections::HashSet::new();
    for (c, lenient, i) in &h.calls {
        let (c, i) = (*c as usize % parsers.len(), *i as usize % srcs.len());
        let p = &parsers[c][*lenient as usize];
        let src = &srcs[i];
        let (img, msgs) = match guard(|| {
            let r = p.parse(src);
            let msgs: Vec<String> = r.report().iter().map(|d| d.message.to_string()).filter(|m| m.starts_with("Unknown timer unit") || m.starts_with("Timer unit is not time")).collect();
            (full_image(p, src), msgs)
        }) {
            Ok(x) => x,
            Err(e) => vbail!("c18.panic.sibling", "parse panicked: {e}; input {src:?}"),
        };
        // what this parser's own converter says about every timer unit of the input
        let mut expected = vec![];
        if !*lenient {
            for (k, _, u) in &h.inputs[i] {
                if k % 4 > 1 {
                    continue;
                }
                let unit = SIBLING_UNITS[*u as usize % SIBLING_UNITS.len()];
                match p.converter().find_unit(unit) {
                    None => expected.push(format!("Unknown timer unit: {unit}")),
                    Some(u) if u.physical_quantity != cooklang::convert::PhysicalQuantity::Time => expected.push(format!("Timer unit is not time: {u}")),
                    Some(_) => {}
                }
            }
        }
        vensure!(
            msgs == expected,
            "c18.depends-on-other-converter",
            "timer-unit diagnostics {msgs:?}, but this parser's own converter (bundled + layer {:?}) gives {expected:?}\n input {src:?}\n calls {:?}",
            SIBLING_LAYERS[c], h.calls
        );
        kinds.insert(c);
        match first.get(&(c, *lenient, i)) {
            None => {
                first.insert((c, *lenient, i), img);
            }
            Some(prev) => vensure!(
                *prev == img,
                "c18.depends-on-history",
                "the same parser gives another result for the same input after parsers with other converters were used\n first {}\n now   {}\n input {src:?}\n calls {:?}",
                truncate(prev, 1200), truncate(&img, 1200), h.calls
            ),
        }
    }
    st.class_if(first.len() < h.calls.len(), "history repeats a (parser, input) pair");
    if kinds.len() > 1 {
        st.nontrivial(&format!("{:?}", h));
    }
    Ok(())
}

// ---------------------------------------------------------------------------
// observers: a tracing subscriber is not an input of the parse

struct Recorder {
    max: tracing::Level,
    next: std::sync::atomic::AtomicU64,
    seen: std::sync::atomic::AtomicU64,
}

struct FieldSink<'a>(&'a std::sync::atomic::AtomicU64);

impl tracing::field::Visit for FieldSink<'_> {
    fn record_debug(&mut self, _field: &tracing::field::Field, value: &dyn std::fmt::Debug) {
        // formats the value: a side effect inside a field expression or a Debug impl would run here
        self.0.fetch_add(format!("{value:?}").len() as u64 + 1, std::sync::atomic::Ordering::Relaxed);
    }
}

impl tracing::Subscriber for Recorder {
    fn enabled(&self, m: &tracing::Metadata<'_>) -> bool {
        *m.level() <= self.max
    }
    fn new_span(&self, a: &tracing::span::Attributes<'_>) -> tracing::span::Id {
        a.record(&mut FieldSink(&self.seen));
        tracing::span::Id::from_u64(self.next.fetch_add(1, std::sync::atomic::Ordering::Relaxed) + 1)
    }
    fn record(&self, _: &tracing::span::Id, v: &tracing::span::Record<'_>) {
        v.record(&mut FieldSink(&self.seen));
    }
    fn record_follows_from(&self, _: &tracing::span::Id, _: &tracing::span::Id) {}
    fn event(&self, e: &tracing::Event<'_>) {
        e.record(&mut FieldSink(&self.seen));
    }
    fn enter(&self, _: &tracing::span::Id) {}
    fn exit(&self, _: &tracing::span::Id) {}
}

fn observed_image(max: tracing::Level, with_options: bool, p: &CooklangParser, src: &str) -> (String, u64) {
    let rec = std::sync::Arc::new(Recorder { max, next: Default::default(), seen: Default::default() });
    let d = tracing::Dispatch::from(RecorderHandle(rec.clone()));
    let img = tracing::dispatcher::with_default(&d, || image_in_mode(p, src, with_options));
    (img, rec.seen.load(std::sync::atomic::Ordering::Relaxed))
}

struct RecorderHandle(std::sync::Arc<Recorder>);

impl tracing::Subscriber for RecorderHandle {
    fn enabled(&self, m: &tracing::Metadata<'_>) -> bool {
        self.0.enabled(m)
    }
    fn new_span(&self, a: &tracing::span::Attributes<'_>) -> tracing::span::Id {
        self.0.new_span(a)
    }
    fn record(&self, i: &tracing::span::Id, v: &tracing::span::Record<'_>) {
        self.0.record(i, v)
    }
    fn record_follows_from(&self, a: &tracing::span::Id, b: &tracing::span::Id) {
        self.0.record_follows_from(a, b)
    }
    fn event(&self, e: &tracing::Event<'_>) {
        self.0.event(e)
    }
    fn enter(&self, i: &tracing::span::Id) {
        self.0.enter(i)
    }
    fn exit(&self, i: &tracing::span::Id) {
        self.0.exit(i)
    }
}

const OBSERVER_LEVELS: [tracing::Level; 5] = [tracing::Level::TRACE, tracing::Level::DEBUG, tracing::Level::INFO, tracing::Level::WARN, tracing::Level::ERROR];

fn check_observed(c: &InputCase, st: Option<&mut Stats>) -> Verdict {
    let src = c.input();
    let p = CooklangParser::new(ALL_EXTS[c.ext], converter(c.conv).clone());
    let mut saw = 0;
    for with_options in [false, true] {
        let Ok(plain) = guard(|| image_in_mode(&p, &src, with_options)) else { return Ok(()) };
        for level in OBSERVER_LEVELS {
            let (img, seen) = match guard(|| observed_image(level, with_options, &p, &src)) {
                Ok(x) => x,
                Err(e) => vbail!("c18.panic.observed", "parse panicked while a {level} tracing subscriber was listening (it does not without): {e}\n input {src:?}"),
            };
            saw += seen;
            vensure!(
                img == plain,
                "c18.depends-on-observer",
                "the result changes while a tracing subscriber (max level {level}) is listening\n without {}\n with    {}\n input {src:?}",
                truncate(&plain, 1200), truncate(&img, 1200)
            );
        }
        let again = guard(|| image_in_mode(&p, &src, with_options)).unwrap_or_default();
        vensure!(again == plain, "c18.depends-on-history", "the result after parses observed by a tracing subscriber differs from the one before\n before {}\n after  {}\n input {src:?}", truncate(&plain, 1200), truncate(&again, 1200));
    }
    // what is done with the result afterwards (scaling, conversion, fractions, grouping) has no listener input either
    let downstream = |p: &CooklangParser| -> String {
        let Some(r) = p.parse(&src).into_output() else { return String::new() };
        let mut img = format!("{:?}", r.metadata.time(p.converter()));
        let mut s = r.scale(1.5, p.converter());
        let _ = s.convert(cooklang::convert::System::Imperial, p.converter());
        img.push_str(&serde_json::to_string(&s).unwrap_or_default());
        for g in s.group_ingredients(p.converter()) {
            // the order of the unknown-unit entries of a grouped quantity is hash order (not a parse result): sorted
            let mut parts: Vec<String> = g.quantity.iter().map(|q| q.to_string()).collect();
            parts.sort();
            img.push_str(&format!("{}|", parts.join(", ")));
        }
        let Some(r) = p.parse(&src).into_output() else { return img };
        let mut m = r.scale(1.0, p.converter());
        let _ = m.convert(cooklang::convert::System::Metric, p.converter());
        img.push_str(&serde_json::to_string(&m).unwrap_or_default());
        img
    };
    if let Ok(plain) = guard(|| downstream(&p)) {
        for level in [tracing::Level::TRACE, tracing::Level::DEBUG] {
            let rec = std::sync::Arc::new(Recorder { max: level, next: Default::default(), seen: Default::default() });
            let d = tracing::Dispatch::from(RecorderHandle(rec.clone()));
            let img = match guard(|| tracing::dispatcher::with_default(&d, || downstream(&p))) {
                Ok(i) => i,
                Err(e) => vbail!("c18.panic.observed", "scaling / converting panicked while a {level} tracing subscriber was listening (it does not without): {e}\n input {src:?}"),
            };
            saw += rec.seen.load(std::sync::atomic::Ordering::Relaxed);
            vensure!(
                img == plain,
                "c18.depends-on-observer",
                "scaling, converting and grouping give another result while a tracing subscriber (max level {level}) is listening\n {}\n input {src:?}",
                first_diff(&plain, &img)
            );
        }
    }
    if let Some(st) = st {
        st.eval();
        st.class_if(saw > 0, "the subscriber received spans or events");
        if saw > 0 {
            st.nontrivial(&(src, c.ext, c.conv));
        }
    }
    Ok(())
}

fn observers_part(run: &mut Run, n: usize) {
    let mut b = batch(run.seed ^ 0x0b5e, n);
    for f in ["@a{1%kg} @&a{1/0} @{} ~{5} #{} @&(9)a{} @b{1%%}", ">> [mode]: nope\n@a{1 1/2%cups} ~{x%min} @&(=~1)a{}\n= s\n@a|b|c{}\n", "---\ntime: x\nservings: [\n---\n@a{}"] {
        b.push(InputCase { pieces: vec![f.to_string()], ext: EXT_ALL, conv: 1 });
    }
    let mut st = Stats::default();
    let mut fail = None;
    for c in &b {
        if let Err(v) = check_observed(c, Some(&mut st)) {
            fail = Some((v, serde_json::to_value(c).unwrap()));
            break;
        }
    }
    st.sample(|| b[0].describe());
    run.add_part("observers", "every input of a batch (plus documents with many parser errors) parsed plain, then while a thread-scoped tracing subscriber is listening at max level TRACE, DEBUG, INFO, WARN, ERROR (it formats every field it is given), then plain again - through parse / parse_metadata and the *_with_options entry points, and the result is scaled, converted to both systems and grouped with and without a listener: all images must be equal (a subscriber is not an input of the parse); non-trivial = the subscriber received something", st, false);
    if let Some((v, case)) = fail {
        run.fail("observers", v, case);
    }
}

/// What one input leaves behind must not reach the next one: every ordered pair of a catalogue of
/// inputs - valid ones and ones that take an error path, sharing numbers, names and keys - is parsed on
/// a thread of its own, and the second result is compared with that input's result on a fresh thread.
const PAIR_INPUTS: &[&str] = &[
    ">> servings: 2|4|2\n@a{1}", ">> servings: 4\n@a{1}", "---\nservings: [6, 8, 6]\n---\n@a{1}", "---\nservings: 6\n---\n@a{1}", ">> servings: 2|4\n@a{1}", ">> serves: 4|4", ">> yield: 8|6",
    ">> time: x", ">> time: 5", ">> prep time: 1h\n>> time: 2h", "---\ntime: {prep: 10, cook: x}\n---", "---\ntime: {prep: 10, cook: 5}\n---",
    ">> tags: a, a, b", ">> tags: a", "---\ntags: [a, [b]]\n---", "---\n: [\n---\nx", "---\na: 1\n---\nx", "---\na: 1\na: 2\n---\nx",
    "@a{1/0}", "@a{1/2}", "@a{} @&b{}", "@b{} @&b{}", "@a|b|c{}", "@a|b{}", "@&(9)x{}", "@x{}\n\n@&(~1)x{}", "~{5%kg}", "~{5%min}", "~{x%min}",
    ">> [mode]: bogus\n@a{}", ">> [mode]: steps\n@a{}\n\n@a{}", ">> [duplicate]: ref\n@a{1%kg} @a{2%g}", "@a{1%kg} @&a{2%l}", "@a{1%kg} @&a{2%g}", "@@x{}", "@@xy{}", "#p{1%kg}", "#p{1}",
    "@-?-?salt{}", "@salt{}", "Add 5 g and 3 kg", "Add 5 x and 3 y",
    // look-alikes: a character of the Basic Multilingual Plane and one of another plane with the same low 16 bits
    // but another category (dash / private use, ideographic space / hieroglyph, fullwidth mark / unassigned), where
    // the category decides how a single-word name ends
    // mixed numbers and fractions whose tokens glue to the same text
    "@milk{1 1/2%cup} #p{2 1/4}", "@milk{11/2%cup} #p{21/4}", "@a{0 1/2} ~{1 1/2%min}", "@a{01/2} ~{11/2%min}",
    "Add @salt— now", "Add @salt\u{f2014} now", "@x\u{3000}y{} #pan\u{3000}big", "@x\u{13000}y{} #pan\u{13000}big", "@name！ok ~t！", "@name\u{1ff01}ok ~t\u{1ff01}", "#pan… @a…b{}", "#pan\u{f2026} @a\u{f2026}b{}",
];

fn pair_image(p: &CooklangParser, src: &str) -> String {
    guard(|| {
        let mut s = full_image(p, src);
        s.push_str(&full_image_with_options(p, src));
        s
    })
    .unwrap_or_else(|e| format!("panic:{e}"))
}

fn check_pair(c: &(u8, u8)) -> Verdict {
    let (a, b) = (PAIR_INPUTS[c.0 as usize % PAIR_INPUTS.len()], PAIR_INPUTS[c.1 as usize % PAIR_INPUTS.len()]);
    let p = parser(EXT_ALL, 1);
    let (reference, after) = std::thread::scope(|s| {
        let fresh = s.spawn(|| pair_image(p, b)).join().unwrap();
        let after = s
            .spawn(|| {
                let _ = pair_image(p, a);
                pair_image(p, b)
            })
            .join()
            .unwrap();
        (fresh, after)
    });
    vensure!(
        reference == after,
        "c18.depends-on-history",
        "the result for {b:?} on a thread that parsed {a:?} just before differs from its result on a fresh thread\n {}",
        first_diff(&reference, &after)
    );
    Ok(())
}

fn pairs_part(run: &mut Run) {
    let n = PAIR_INPUTS.len();
    let p = parser(EXT_ALL, 1);
    // every input once on a thread of its own
    let reference: Vec<String> = PAIR_INPUTS.iter().map(|src| std::thread::scope(|s| s.spawn(|| pair_image(p, src)).join().unwrap())).collect();
    let mut st = Stats::default();
    let mut fail = None;
    'outer: for i in 0..n {
        // one thread per first input: it parses the first input, then every second input, each followed by the first again
        let imgs: Vec<String> = std::thread::scope(|s| {
            s.spawn(|| {
                let mut out = vec![];
                for j in 0..n {
                    let _ = pair_image(p, PAIR_INPUTS[i]);
                    out.push(pair_image(p, PAIR_INPUTS[j]));
                }
                out
            })
            .join()
            .unwrap()
        });
        for (j, img) in imgs.iter().enumerate() {
            st.eval();
            st.nontrivial(&(i, j));
            if *img != reference[j] {
                fail = Some((
                    Violation::new(
                        "c18.depends-on-history",
                        format!("the result for {:?} on a thread that parsed {:?} just before differs from its result on a fresh thread\n {}", PAIR_INPUTS[j], PAIR_INPUTS[i], first_diff(&reference[j], img)),
                    ),
                    json!([i, j]),
                ));
                break 'outer;
            }
        }
    }
    st.sample(|| json!(PAIR_INPUTS[0]));
    run.add_part("pairs", &format!("all {} ordered pairs of a catalogue of {n} inputs (valid ones and ones that take an error path: duplicate servings, bad durations, YAML errors, dangling references, zero denominators, bad modes, non-time timer units ..., sharing numbers, names and keys; and look-alike texts whose characters differ only in the Unicode plane): a thread parses the first, then the second (plain and with options, full and metadata-only); the second image must equal that input's image on a thread that parsed nothing else; every pair is non-trivial", n * n), st, true);
    if let Some((v, case)) = fail {
        run.fail("pairs", v, case);
    }
}

/// Parsers that differ in the extension set only, used one after the other on one thread: what a parser
/// with set A did must not reach a parser with set B (all 18 x 17 ordered pairs of: everything, everything but
/// one extension, nothing, one extension only).
const EXTENSION_INPUTS: &[&str] = &[
    "@eggs{1-2} @milk{1/2-3/4%l} #tins{2-3}",
    "~{5} ~rest{} ~{10%min} ~nap",
    "Knead @dough{}.\n\nBake @&(~1)dough{} and @&(1)dough{}",
    "@olive oil|oil{} #frying pan|pan{}",
    ">> [mode]: steps\n@a{}\n\n@a{} and @&a{}\n>> [duplicate]: ref\n@b{} @b{}",
    "Add 5 g of salt and bake at 180 C for 10 minutes",
    "@water{1 l} #pot{2 big} ~{5 min}",
    "@-salt{} @?pepper{} @+salt{} @@pesto{} @&salt{}",
    "@x{=2%kg} @y{1/0} ~{x%min} ~{5%kg}",
    ">> servings: 2|4\n>> time: 1h\n@a{1%kg}(note) @&a{2%g}(other)",
];

fn sibling_extension_sets() -> Vec<cooklang::Extensions> {
    use cooklang::Extensions as E;
    let singles = [E::COMPONENT_MODIFIERS, E::COMPONENT_ALIAS, E::ADVANCED_UNITS, E::MODES, E::INLINE_QUANTITIES, E::RANGE_VALUES, E::TIMER_REQUIRES_TIME, E::INTERMEDIATE_PREPARATIONS];
    let mut v = vec![E::all(), E::empty()];
    for s in singles {
        v.push(E::all() - s);
        v.push(s);
    }
    v.dedup();
    v
}

fn extension_images(p: &CooklangParser) -> Vec<String> {
    EXTENSION_INPUTS.iter().map(|src| guard(|| full_image(p, src)).unwrap_or_else(|e| format!("panic:{e}"))).collect()
}

fn check_extension_pair(c: &(u8, u8)) -> Verdict {
    let sets = sibling_extension_sets();
    let (a, b) = (sets[c.0 as usize % sets.len()], sets[c.1 as usize % sets.len()]);
    let (pa, pb) = (CooklangParser::new(a, BUNDLED.clone()), CooklangParser::new(b, BUNDLED.clone()));
    let (reference, after) = std::thread::scope(|s| {
        let fresh = s.spawn(|| extension_images(&pb)).join().unwrap();
        let after = s
            .spawn(|| {
                let _ = extension_images(&pa);
                extension_images(&pb)
            })
            .join()
            .unwrap();
        (fresh, after)
    });
    for (i, (r, x)) in reference.iter().zip(&after).enumerate() {
        vensure!(
            r == x,
            "c18.depends-on-history",
            "a parser with {b:?} gives another result for {:?} on a thread where a parser with {a:?} parsed before than on a fresh thread\n {}",
            EXTENSION_INPUTS[i],
            first_diff(r, x)
        );
    }
    Ok(())
}

fn extension_pairs_part(run: &mut Run) {
    let n = sibling_extension_sets().len();
    let mut st = Stats::default();
    let mut fail = None;
    'outer: for a in 0..n {
        for b in 0..n {
            if a == b {
                continue;
            }
            st.eval();
            st.nontrivial(&(a, b));
            if let Err(v) = check_extension_pair(&(a as u8, b as u8)) {
                fail = Some((v, json!([a, b])));
                break 'outer;
            }
        }
    }
    st.sample(|| json!(EXTENSION_INPUTS[0]));
    run.add_part("extension-pairs", &format!("all {} ordered pairs of {n} extension sets (everything, everything but one, nothing, one only): a thread parses 10 inputs that use every extension's syntax with a parser of the first set, then with a parser of the second; the second images must equal those of a thread that only used the second parser; every pair is non-trivial", n * (n - 1)), st, true);
    if let Some((v, case)) = fail {
        run.fail("extension-pairs", v, case);
    }
}

fn processes_part(run: &mut Run, n: usize) {
    let mut st = Stats::default();
    let exe = std::env::current_exe().expect("current exe");
    let own = digest(run.seed, n);
    let mut digests = vec![];
    for _ in 0..2 {
        st.eval();
        match std::process::Command::new(&exe).args(["C18", "--digest", &run.seed.to_string(), &n.to_string()]).output() {
            Ok(o) => {
                let s = String::from_utf8_lossy(&o.stdout);
                match s.lines().find_map(|l| l.strip_prefix("DIGEST ")).and_then(|d| d.trim().parse::<u64>().ok()) {
                    Some(d) => digests.push(d),
                    None => {
                        run.set_inconclusive(format!("child process gave no digest: {s}"));
                        return;
                    }
                }
            }
            Err(e) => {
                run.set_inconclusive(format!("cannot spawn child process: {e}"));
                return;
            }
        }
    }
    st.nontrivial_counted = n as u64;
    st.sample(|| json!({"own": own, "children": digests}));
    let ok = digests.iter().all(|d| *d == own);
    run.add_part("processes", &format!("the digest of all result images of a batch of {n} inputs computed by this process and by two child processes (different hash seeds) must be equal: exposes hash-order dependence"), st, false);
    if !ok {
        run.fail("processes", Violation::new("c18.process-result-differs", format!("digests differ between processes: own {own}, children {digests:?}")), json!({"seed": run.seed, "n": n}));
    }
}

pub fn run(tier: Tier) -> i32 {
    let mut run = Run::new("C18", tier);
    run.assume("thread interleavings are whatever the OS produces: schedules are sampled, not enumerated (DESIGN section 7)");
    run.replay_regressions(&|part, j| match part {
        "histories" => check_history(&case_from(j)?, &mut Stats::default()),
        "sibling-converters" => check_siblings(&case_from(j)?, &mut Stats::default()),
        "observers" => check_observed(&case_from(j)?, None),
        "pairs" => check_pair(&case_from(j)?),
        "extension-pairs" => check_extension_pair(&case_from(j)?),
        "buffer-reuse" => check_buffer_reuse(&case_from(j)?, &mut Stats::default()),
        _ => {
            let c: InputCase = case_from(j)?;
            let a = full_image(parser(c.ext, c.conv), &c.input());
            let b = full_image(&CooklangParser::new(ALL_EXTS[c.ext], converter(c.conv).clone()), &c.input());
            if a == b { Ok(()) } else { Err(Violation::new("c18.repeat-differs", "two parses of the input differ")) }
        }
    });
    if !run.failed() {
        run_prop(
            &mut run,
            "histories",
            "histories: 1-6 generated inputs (half of the histories add a look-alike of one input whose non-ASCII characters are moved to another Unicode plane, parsed before and after the original) parsed 2-20 times in a generated order (repeats and interleavings; a quarter of the calls go through parse_with_options / parse_metadata_with_options with a key-excluding metadata validator) on a long-lived parser that all 16 worker threads share; each result image (output JSON, ordered diagnostics with labels and hints, rendered report, metadata-only parse) must equal the image on a fresh parser and the image of the first occurrence; non-trivial = the history repeats an input; distinct = distinct history",
            || {
                (
                    proptest::collection::vec(prop_oneof![2 => recipe_input_strategy(false), 1 => recipe_input_strategy(true), 1 => lines_strategy()], 1..=6),
                    proptest::collection::vec(any::<u8>(), 2..=16),
                    ext_strategy(),
                    0u8..2,
                )
                    .prop_map(|(inputs, order, ext, conv)| {
                        let mut inputs: Vec<Vec<String>> = inputs.into_iter().map(|i| i.pieces).collect();
                        let mut order = order;
                        // half of the histories also hold a look-alike of one input: every non-ASCII character of the
                        // Basic Multilingual Plane moved to plane 15 or 1 (same low 16 bits), parsed before and after
                        // the original - anything remembered per character under too short a key shows up here
                        if order[0] % 2 == 0 {
                            let o = order[1] as usize % inputs.len();
                            let plane = if order[0] % 4 == 0 { 0xF0000 } else { 0x10000 };
                            let variant: Vec<String> = inputs[o]
                                .iter()
                                .map(|p| p.chars().map(|c| if (c as u32) >= 0x80 && (c as u32) < 0x10000 { char::from_u32(c as u32 + plane).unwrap_or(c) } else { c }).collect())
                                .collect();
                            if variant != inputs[o] {
                                inputs.push(variant);
                                let v = (inputs.len() - 1) as u8;
                                let mut pre = vec![v, o as u8, v, o as u8];
                                pre.append(&mut order);
                                order = pre;
                            }
                        }
                        History { inputs, order, ext, conv }
                    })
            },
            tier.pick(4_000, 400_000),
            |h: &History, st| {
                st.sample(|| json!({"inputs": h.inputs.iter().map(|p| p.concat()).collect::<Vec<_>>(), "order": h.order}));
                check_history(h, st)
            },
        );
    }
    if !run.failed() {
        threads_part(&mut run, tier.pick(240, 6000) as usize, 16);
    }
    if !run.failed() {
        placement_part(&mut run, tier.pick(400, 20000) as usize);
    }
    if !run.failed() {
        buffer_reuse_part(&mut run, tier.pick(400, 20000) as usize);
    }
    if !run.failed() {
        options_part(&mut run, tier.pick(300, 6000) as usize);
    }
    if !run.failed() {
        options_sequence_part(&mut run, tier.pick(1500, 60000) as usize);
    }
    if !run.failed() {
        entry_points_part(&mut run, tier.pick(1500, 60000) as usize);
    }
    if !run.failed() {
        repetition_part(&mut run, tier.pick(60, 1500) as usize);
    }
    if !run.failed() {
        fresh_race_part(&mut run, tier.pick(300, 6000) as usize, 8);
    }
    if !run.failed() {
        pairs_part(&mut run);
    }
    if !run.failed() {
        extension_pairs_part(&mut run);
    }
    if !run.failed() {
        observers_part(&mut run, tier.pick(600, 20000) as usize);
    }
    if !run.failed() {
        run_prop(
            &mut run,
            "sibling-converters",
            "histories over 14 parsers that differ in the converter only (bundled units alone; + an [extend] layer giving a time unit Spanish aliases - same unit count; + aliases on other units; + one more time unit; + a mass unit called `minutos`; + a time unit called `gramo`; + a mass unit aliased `hora`; each with and without ADVANCED_UNITS): 1-4 inputs of timers, named timers, ingredients and inline quantities with units from an 18-word pool, 3-16 calls in a generated order; the timer-unit diagnostics of every call must be exactly what that parser's own converter says about the units (find_unit), and every image must equal the first image of the same (parser, input); non-trivial = the history uses at least two converters; distinct = distinct history",
            || {
                (
                    proptest::collection::vec(proptest::collection::vec((0u8..4, 0u16..400, 0u8..SIBLING_UNITS.len() as u8), 1..=4), 1..=4),
                    proptest::collection::vec((0u8..SIBLING_LAYERS.len() as u8, proptest::bool::weighted(0.15), 0u8..4), 3..=16),
                )
                    .prop_map(|(inputs, calls)| SiblingHistory { inputs, calls })
            },
            tier.pick(6_000, 300_000),
            |h: &SiblingHistory, st| {
                st.sample(|| json!({"inputs": h.inputs.iter().map(|i| sibling_text(i)).collect::<Vec<_>>(), "calls": h.calls}));
                check_siblings(h, st)
            },
        );
    }
    if !run.failed() {
        processes_part(&mut run, tier.pick(300, 6000) as usize);
    }
    // last: a poisoned lock inside the FFI would break every later call in this process
    if !run.failed() {
        ffi_histories_part(&mut run, tier.pick(300, 3000) as usize);
    }
    run.finish()
}

pub fn replay(part: &str, j: &serde_json::Value) -> Verdict {
    match part {
        "histories" => check_history(&case_from(j)?, &mut Stats::default()),
        "processes" => Err(Violation::new("c18.process-result-differs", "re-run ./check C18 quick with the recorded VERIF_SEED")),
        "sibling-converters" => check_siblings(&case_from(j)?, &mut Stats::default()),
        "observers" => check_observed(&case_from(j)?, None),
        "pairs" => check_pair(&case_from(j)?),
        "extension-pairs" => check_extension_pair(&case_from(j)?),
        "buffer-reuse" => check_buffer_reuse(&case_from(j)?, &mut Stats::default()),
        "ffi-histories" => {
            let src = j.get("source").and_then(|s| s.as_str()).unwrap_or("").to_string();
            let f = j.get("factor").and_then(|f| f.as_f64()).unwrap_or(1.0);
            let img = |s: &str| guard(|| format!("{:?}", cooklang_bindings::parse_recipe(s.to_string(), f).ingredients));
            let before = img(&src);
            for bad in ["@flour{1/0%cup}", "@{}", "~{5}"] {
                let _ = guard(|| cooklang_bindings::parse_metadata(bad.to_string(), f));
                let _ = guard(|| cooklang_bindings::parse_recipe(bad.to_string(), f));
            }
            let after = img(&src);
            vensure!(before == after, "c18.ffi-depends-on-history", "parse_recipe gives {before:?} before and {after:?} after calls with invalid sources");
            Ok(())
        }
        "repetition" => {
            let c: InputCase = case_from(j)?;
            let src = c.input();
            let p = parser(c.ext, c.conv);
            let meta = |s: &str| {
                let m = p.parse_metadata(s);
                format!("{:?}{:?}", m.output().map(|m| serde_json::to_string(m).unwrap_or_default()), m.report().iter().map(|d| d.message.to_string()).collect::<Vec<_>>())
            };
            let first = meta(&src);
            for k in 0..2000 {
                vensure!(meta(&src) == first, "c18.repeat-differs", "parse_metadata call #{} differs from the first", k + 2);
            }
            let first = crate::c02::result_image(&p.parse(&src));
            for k in 0..500 {
                vensure!(crate::c02::result_image(&p.parse(&src)) == first, "c18.repeat-differs", "parse call #{} differs from the first", k + 2);
            }
            Ok(())
        }
        "entry-points" => {
            let c: InputCase = case_from(j)?;
            let src = c.input();
            let p = parser(c.ext, c.conv);
            let a = crate::c02::result_image(&p.parse(&src));
            let b = crate::c02::result_image(&cooklang::analysis::parse_events(cooklang::parser::PullParser::new(&src, ALL_EXTS[c.ext]), &src, ALL_EXTS[c.ext], converter(c.conv), cooklang::ParseOptions::default()));
            let d = crate::c02::result_image(&p.parse_with_options(&src, cooklang::ParseOptions::default()));
            let mut ok = a == b && a == d;
            if c.ext == EXT_ALL && c.conv == 1 {
                ok &= a == crate::c02::result_image(&cooklang::parse(&src)) && a == crate::c02::result_image(&CooklangParser::extended().parse(&src));
            }
            if c.ext == EXT_EMPTY && c.conv == 0 {
                ok &= a == crate::c02::result_image(&CooklangParser::canonical().parse(&src));
            }
            vensure!(ok, "c18.entry-points-differ", "entry points give different results for {src:?}");
            Ok(())
        }
        "options-sequence" => {
            let c: InputCase = case_from(j)?;
            let src = c.input();
            let p = CooklangParser::new(ALL_EXTS[c.ext], converter(c.conv).clone());
            let a0 = full_image(&p, &src);
            let o0 = full_image_with_options(&p, &src);
            let a1 = full_image(&p, &src);
            let o1 = full_image_with_options(&p, &src);
            let a2 = full_image(&CooklangParser::new(ALL_EXTS[c.ext], converter(c.conv).clone()), &src);
            vensure!(a0 == a1 && o0 == o1 && a0 == a2, "c18.depends-on-history", "equal calls around a parse with options give different results\n plain {}\n plain again {}\n other parser {}", truncate(&a0, 1000), truncate(&a1, 1000), truncate(&a2, 1000));
            Ok(())
        }
        _ => {
            // repeat the single input many times on shared and fresh parsers, from several threads
            let c: InputCase = case_from(j)?;
            let src = c.input();
            let base = full_image(&CooklangParser::new(ALL_EXTS[c.ext], converter(c.conv).clone()), &src);
            let imgs: Vec<String> = std::thread::scope(|s| {
                let hs: Vec<_> = (0..8).map(|_| s.spawn(|| (0..50).map(|_| full_image(parser(c.ext, c.conv), &src)).collect::<Vec<_>>())).collect();
                hs.into_iter().flat_map(|h| h.join().unwrap()).collect()
            });
            match imgs.iter().find(|i| **i != base) {
                Some(i) => vbail!("c18.thread-result-differs", "repeated / concurrent parses differ\n one {}\n other {}", truncate(i, 1500), truncate(&base, 1500)),
                None => Ok(()),
            }
        }
    }
}
