//! E1: proptest strategy for raw recipes and the deterministic `build` that turns a raw recipe
//! into a well-formed `RecipeM` (resolving name choices, repairing what would be ill-formed).

use proptest::prelude::*;
use serde::{Deserialize, Serialize};

use crate::model::*;

// ---------------------------------------------------------------------------
// vocabularies (index 0 is the plainest choice: shrinking converges there)

pub const NAME_WORDS: &[&str] = &[
    "salt", "flour", "water", "oil", "olive", "crème", "jalapeño", "7up", "egg", "sugar", "Butter", "milk",
    "🧄", "pan", "pot", "bowl", "large", "fresh", "all-purpose", "baker's", "Öl", "ñame", "bread1",
    // blanks that are not the ASCII space stay inside a name, whatever the spacing around the words is
    "crème\u{a0}fraîche", "中華\u{3000}鍋", "half\u{2009}fat",
];
pub const TEXT_WORDS: &[&str] = &[
    "Mix", "the", "and", "well", "then", "add", "until", "golden", "Bake", "for", "about", "with", "of",
    "slowly", "Serve", "über", "naïve", "到", "🔥", "It's", "pre-heated", "Stir",
];
pub const PUNCT: &[&str] = &[",", ".", ";", "!", ":", "(", ")", "'", "/", "&", "%", "*", "+", "?", "|", "-", "…", "—", ">", "="];
pub const ESCAPED: &[char] = &['@', '#', '~', '{', '}', '\\', '[', '-', '>', '=', 'é', 'a', '|', '%'];
pub const TEXT_NUMS: &[&str] = &["2", "350", "10", "1", "45", "\u{2212}5", "±2", "\u{2212}18"];
pub const UNITS: &[&str] = &["g", "kg", "ml", "l", "cup", "cups", "tsp", "tbsp", "oz", "lb", "bag", "cloves", "big pinch", "fl oz", "L", "grams", "EL", "Pkg", "tsp.", "fl. oz.", "fl\u{a0}oz", "fl\u{2009}oz"];
pub const TIME_UNITS: &[&str] = &["min", "minutes", "h", "hours", "s", "sec", "d", "day", "secs", "mins", "minute", "hour", "seconds", "days"];
pub const TEXT_VALUES: &[&str] = &["a pinch", "some", "to taste", "handful", "a dash", "half a", "plenty", "one or two", "1/0-x", "1/2-some", "2-x",
    // text for the parser, numbers for a float parser
    "01", "+2", "1e3", "inf", "nan", "2E1", "007", "1_000",
    // ASCII digits directly followed by numerals that are not ASCII
    "1½", "20²", "1٣", "3¼",
    // dashes that are not the ASCII minus
    "2–3", "1—2", "2‐3 big"];
pub const INLINE_UNITS: &[&str] = &["ºC", "°F", "kg", "ml", "C", "minutes"];
pub const INLINE_NUMS: &[&str] = &["180", "350", "2", "1.5", "0.5"];
pub const META_KEYS: &[&str] = &[
    "note", "origin", "my key", "wine pairing", "x", "Kitchen", "season", "equipment notes", "clé", "rating", "k1", "k2", "k3", "diet", "cuisine", "difficulty",
    "image", "nota bene", "[mode", "[duplicate", "define]", "[x", "nota\u{a0}bene",
];
pub const META_VALUES: &[&str] = &["value", "a longer value", "https://example.org/a?b=c", "1", "yes: no", "Ünïcode ✓", "it's \"quoted\"", "a, b, c", "3.5 stars", "steps", "ref", "text", "serve  cold", "a  |  b"];
pub const SECTION_NAMES: &[&str] = &["Dough", "Filling", "To serve", "Step 2 prep", "Crème", "sauce & sides", "À\u{a0}part"];
pub const STEP_LINES: &[&str] = &[">> note: remember the oven", ">> [optional: add more of it", ">> see note [a]: later", ">> wine pairing: red", ">> my key : spaced out", ">>x:y",
    // with a front matter these are steps like the others: no key, no value, no separator
    ">>: value", ">> key:", ">> and then just text", ">> :"];
pub const TEXT_MODE_COMPONENTS: &[&str] = &["@salt{1%tsp}(flaky, if possible)", "#pan{}(big)", "@olive oil{2%tbsp}", "@&salt{}", "@water{1/2%l}(cold)", "#bowl", "@flour{=200%g}", "#&pan(hot)"];
pub const DEC_FRACS: &[&str] = &["5", "25", "05", "75", "125", "0", "50"];

/// Words usable as a single-word component name (one word/int token run, no punctuation)
pub fn is_plain_word(s: &str) -> bool {
    !s.is_empty() && s.chars().all(|c| c.is_alphanumeric() || c == '🧄')
}

// ---------------------------------------------------------------------------
// raw (generated) form

#[derive(Debug, Clone, Serialize, Deserialize)]
pub enum RawNum {
    Int(u16),
    Dec(u16, u8),
    Frac(u8, u8),
    Mixed(u8, u8, u8),
    /// very large integer literal (parsed as a float)
    Big(u8),
}

pub const BIG_INTS: &[&str] = &["20000000000000000000", "123456789012345678901234567890", "4294967296", "9007199254740993"];

#[derive(Debug, Clone, Serialize, Deserialize)]
pub enum RawVal {
    Num(RawNum),
    Range(RawNum, RawNum),
    Text(u8),
    /// text value that begins with a number; only ever written with an explicit `%unit`
    NumText(u8),
}

pub const NUM_TEXT_VALUES: &[&str] = &["2 heaped", "1 big", "3 or 4", "1 1/2 generous", "2 x 400"];

#[derive(Debug, Clone, Serialize, Deserialize)]
pub struct RawQty {
    pub lock: bool,
    pub val: RawVal,
    pub unit: Option<u8>,
    pub blank_sep: bool,
}

#[derive(Debug, Clone, Serialize, Deserialize)]
pub struct RawComp {
    pub cookware: bool,
    pub name: Vec<u8>,
    /// Some(k): make this a reference to the k-th (mod n) earlier definition of its kind
    pub refsel: Option<u8>,
    pub flip_case: bool,
    pub mods: u8,
    /// intermediate reference: (kind 0..4, value)
    pub inter: Option<(u8, u8)>,
    pub alias: Option<u8>,
    pub qty: Option<RawQty>,
    pub note: Option<Vec<u8>>,
    pub braces: bool,
}

#[derive(Debug, Clone, Serialize, Deserialize)]
pub struct RawTimer {
    pub name: Option<u8>,
    pub num: RawNum,
    pub range_to: Option<RawNum>,
    pub unit: u8,
    pub no_qty: bool,
}

#[derive(Debug, Clone, Serialize, Deserialize)]
pub enum RawTok {
    Word(u8),
    Punct(u8),
    Escaped(u8),
    Num(u8),
    Comp(RawComp),
    Timer(RawTimer),
    Inline(u8, u8, bool),
}

#[derive(Debug, Clone, Serialize, Deserialize)]
pub enum RawBlock {
    Section(Option<u8>),
    Step(Vec<(bool, RawTok)>),
    Text(Vec<Vec<u8>>),
    Mode(u8),
    Meta(u8, u8),
    StdMeta(u8),
}

#[derive(Debug, Clone, Serialize, Deserialize)]
pub enum RawYaml {
    Str(u8),
    Int(i16),
    Float(i8),
    Bool(bool),
    Null,
    List(Vec<RawYaml>),
    Map(Vec<(u8, RawYaml)>),
}

#[derive(Debug, Clone, Serialize, Deserialize)]
pub struct RawRecipe {
    pub ext: bool,
    pub front: Option<Vec<(u8, RawYaml)>>,
    pub front_std: Vec<u8>,
    pub blocks: Vec<RawBlock>,
    pub tape: Vec<u16>,
}

// ---------------------------------------------------------------------------
// strategies

fn raw_num() -> impl Strategy<Value = RawNum> + Clone {
    prop_oneof![
        4 => (0u16..2000).prop_map(RawNum::Int),
        1 => (0u16..3).prop_map(RawNum::Int),
        2 => (0u16..300, 0u8..DEC_FRACS.len() as u8).prop_map(|(a, b)| RawNum::Dec(a, b)),
        2 => (0u8..20, 1u8..17).prop_map(|(a, b)| RawNum::Frac(a, b)),
        1 => (1u8..20, 0u8..16, 1u8..17).prop_map(|(w, a, b)| RawNum::Mixed(w, a, b)),
        1 => (0u8..4).prop_map(RawNum::Big),
    ]
}

fn raw_qty() -> impl Strategy<Value = RawQty> {
    let val = prop_oneof![
        5 => raw_num().prop_map(RawVal::Num),
        2 => (raw_num(), raw_num()).prop_map(|(a, b)| RawVal::Range(a, b)),
        2 => (0u8..TEXT_VALUES.len() as u8).prop_map(RawVal::Text),
        1 => (0u8..NUM_TEXT_VALUES.len() as u8).prop_map(RawVal::NumText),
    ];
    (any::<bool>(), val, proptest::option::weighted(0.7, 0u8..UNITS.len() as u8), any::<bool>())
        .prop_map(|(lock, val, unit, blank_sep)| RawQty { lock: lock && blank_sep, val, unit, blank_sep })
}

fn raw_comp(inter: f64) -> impl Strategy<Value = RawComp> {
    (
        (
            proptest::bool::weighted(0.25),
            proptest::collection::vec(0u8..NAME_WORDS.len() as u8, 1..=3),
            proptest::option::weighted(0.35, any::<u8>()),
            proptest::bool::weighted(0.2),
            0u8..32,
        ),
        (
            proptest::option::weighted(inter, (0u8..4, 0u8..3)),
            proptest::option::weighted(0.15, 0u8..NAME_WORDS.len() as u8),
            proptest::option::weighted(0.6, raw_qty()),
            proptest::option::weighted(0.2, proptest::collection::vec(0u8..TEXT_WORDS.len() as u8, 0..=3)),
            any::<bool>(),
        ),
    )
        .prop_map(|((cookware, name, refsel, flip_case, mods), (inter, alias, qty, note, braces))| RawComp {
            cookware,
            name,
            refsel,
            flip_case,
            mods,
            inter,
            alias,
            qty,
            note,
            braces,
        })
}

fn raw_timer() -> impl Strategy<Value = RawTimer> {
    (
        proptest::option::weighted(0.3, 0u8..NAME_WORDS.len() as u8),
        raw_num(),
        proptest::option::weighted(0.15, raw_num()),
        0u8..TIME_UNITS.len() as u8,
        proptest::bool::weighted(0.1),
    )
        .prop_map(|(name, num, range_to, unit, no_qty)| RawTimer { name, num, range_to, unit, no_qty })
}

fn raw_tok(inter: f64) -> impl Strategy<Value = RawTok> {
    prop_oneof![
        8 => (0u8..TEXT_WORDS.len() as u8).prop_map(RawTok::Word),
        3 => (0u8..PUNCT.len() as u8).prop_map(RawTok::Punct),
        1 => (0u8..ESCAPED.len() as u8).prop_map(RawTok::Escaped),
        1 => (0u8..TEXT_NUMS.len() as u8).prop_map(RawTok::Num),
        5 => raw_comp(inter).prop_map(RawTok::Comp),
        2 => raw_timer().prop_map(RawTok::Timer),
        1 => (0u8..INLINE_NUMS.len() as u8, 0u8..INLINE_UNITS.len() as u8, any::<bool>()).prop_map(|(a, b, c)| RawTok::Inline(a, b, c)),
    ]
}

/// what a generated recipe is rich in
#[derive(Debug, Clone, Copy, PartialEq, Eq)]
pub enum Profile {
    Default,
    /// many sections (half of them unnamed, so empty ones occur) and many intermediate references
    Sections,
    /// many old-style metadata entries (8 or more `>>` lines are common), no front matter
    Metas,
}

fn raw_block(p: Profile) -> impl Strategy<Value = RawBlock> {
    // weights: step, section, text, mode, meta, std meta; probability of a section name
    let (w, named): ([u32; 6], f64) = match p {
        Profile::Default => ([10, 2, 2, 2, 2, 1], 0.85),
        Profile::Sections => ([8, 7, 1, 1, 1, 1], 0.5),
        Profile::Metas => ([3, 1, 1, 1, 12, 3], 0.85),
    };
    let inter = if p == Profile::Sections { 0.6 } else { 0.22 };
    prop_oneof![
        w[0] => proptest::collection::vec((proptest::bool::weighted(0.85), raw_tok(inter)), 1..=7).prop_map(RawBlock::Step),
        w[1] => proptest::option::weighted(named, 0u8..SECTION_NAMES.len() as u8).prop_map(RawBlock::Section),
        w[2] => proptest::collection::vec(proptest::collection::vec(0u8..TEXT_WORDS.len() as u8, 1..=5), 1..=3).prop_map(RawBlock::Text),
        w[3] => (0u8..6).prop_map(RawBlock::Mode),
        w[4] => (0u8..META_KEYS.len() as u8, 0u8..META_VALUES.len() as u8).prop_map(|(k, v)| RawBlock::Meta(k, v)),
        w[5] => (0u8..12).prop_map(RawBlock::StdMeta),
    ]
}

fn raw_yaml() -> impl Strategy<Value = RawYaml> {
    let leaf = prop_oneof![
        4 => (0u8..META_VALUES.len() as u8).prop_map(RawYaml::Str),
        2 => any::<i16>().prop_map(RawYaml::Int),
        1 => any::<i8>().prop_map(RawYaml::Float),
        1 => any::<bool>().prop_map(RawYaml::Bool),
        1 => Just(RawYaml::Null),
    ];
    leaf.prop_recursive(2, 8, 3, |inner| {
        prop_oneof![
            proptest::collection::vec(inner.clone(), 0..3).prop_map(RawYaml::List),
            proptest::collection::vec((0u8..META_KEYS.len() as u8, inner), 1..3).prop_map(RawYaml::Map),
        ]
    })
}

pub fn raw_recipe(ext: Option<bool>) -> impl Strategy<Value = RawRecipe> {
    prop_oneof![
        8 => raw_recipe_with(ext, Profile::Default),
        1 => raw_recipe_with(ext, Profile::Sections),
        1 => raw_recipe_with(ext, Profile::Metas),
    ]
}

pub fn raw_recipe_with(ext: Option<bool>, p: Profile) -> impl Strategy<Value = RawRecipe> {
    let ext_s = match ext {
        Some(b) => Just(b).boxed(),
        None => any::<bool>().boxed(),
    };
    let (front_p, blocks) = match p {
        Profile::Default => (0.3, 1..=10usize),
        Profile::Sections => (0.2, 4..=14usize),
        Profile::Metas => (0.0, 8..=20usize),
    };
    let front_s = if front_p > 0.0 {
        proptest::option::weighted(front_p, proptest::collection::vec((0u8..META_KEYS.len() as u8, raw_yaml()), 0..4)).boxed()
    } else {
        Just(None).boxed()
    };
    (
        ext_s,
        front_s,
        proptest::collection::vec(0u8..12, 0..3),
        proptest::collection::vec(raw_block(p), blocks),
        proptest::collection::vec(any::<u16>(), 0..120),
    )
        .prop_map(|(ext, front, front_std, blocks, tape)| RawRecipe { ext, front, front_std, blocks, tape })
}

// ---------------------------------------------------------------------------
// build: raw -> well-formed model

fn num_of(r: &RawNum) -> NumM {
    match r {
        RawNum::Int(i) => NumM::Int(*i as u32),
        // a tenth of the decimals are written without the integer part: `.5`, `.05`
        RawNum::Dec(a, b) if *a >= 270 => NumM::Dec(format!(".{}", DEC_FRACS[*b as usize % DEC_FRACS.len()])),
        RawNum::Dec(a, b) => NumM::Dec(format!("{}.{}", a, DEC_FRACS[*b as usize % DEC_FRACS.len()])),
        RawNum::Frac(a, b) => NumM::Frac(*a as u32, (*b).max(1) as u32),
        RawNum::Mixed(w, a, b) => NumM::Mixed(*w as u32, *a as u32, (*b).max(1) as u32),
        RawNum::Big(i) => NumM::Dec(BIG_INTS[*i as usize % BIG_INTS.len()].to_string()),
    }
}

/// the keys that declare servings
pub fn is_servings_key(k: &str) -> bool {
    matches!(k, "servings" | "serves" | "yield")
}

/// standard metadata entries with valid values: (key, `>>` value text, yaml value)
pub fn std_meta(i: u8) -> (&'static str, &'static str, YamlM) {
    match i % 12 {
        10 => ("serves", "4", YamlM::Int(4)),
        11 => ("yield", "6 | 12", YamlM::List(vec![YamlM::Int(6), YamlM::Int(12)])),
        8 => ("servings", "6|2|4", YamlM::List(vec![YamlM::Int(6), YamlM::Int(2), YamlM::Int(4)])),
        9 => ("servings", "12 small | 3 big", YamlM::List(vec![YamlM::Str("12 small".into()), YamlM::Str("3 big".into())])),
        0 => ("servings", "4", YamlM::Int(4)),
        1 => ("servings", "2| 4 |8", YamlM::List(vec![YamlM::Int(2), YamlM::Int(4), YamlM::Int(8)])),
        2 => ("time", "1h 30min", YamlM::Str("1h 30min".into())),
        3 => ("tags", "quick, vegan", YamlM::List(vec![YamlM::Str("quick".into()), YamlM::Str("vegan".into())])),
        4 => ("author", "Mom <https://mom.example/r>", YamlM::Str("Mom <https://mom.example/r>".into())),
        5 => ("title", "Best cake", YamlM::Str("Best cake".into())),
        6 => ("locale", "es_ES", YamlM::Str("es_ES".into())),
        _ => ("prep time", "15", YamlM::Int(15)),
    }
}

fn yaml_of(r: &RawYaml, depth: u8) -> YamlM {
    match r {
        RawYaml::Str(i) => YamlM::Str(META_VALUES[*i as usize % META_VALUES.len()].to_string()),
        RawYaml::Int(i) => YamlM::Int(*i as i64),
        RawYaml::Float(i) => YamlM::Float(*i as f64 / 4.0 + 0.25),
        RawYaml::Bool(b) => YamlM::Bool(*b),
        RawYaml::Null => YamlM::Null,
        RawYaml::List(v) => YamlM::List(v.iter().map(|x| yaml_of(x, depth + 1)).collect()),
        RawYaml::Map(v) => {
            let mut out: Vec<(String, YamlM)> = vec![];
            for (k, x) in v {
                let key = META_KEYS[*k as usize % META_KEYS.len()].to_string();
                if out.iter().any(|(k2, _)| *k2 == key) {
                    continue;
                }
                out.push((key, yaml_of(x, depth + 1)));
            }
            YamlM::Map(out)
        }
    }
}

fn flip(s: &str) -> String {
    // change case of the first cased letter (Unicode aware); keeps the rest
    let mut out = String::new();
    let mut done = false;
    for c in s.chars() {
        if !done && c.is_lowercase() && c.to_uppercase().count() == 1 {
            out.extend(c.to_uppercase());
            done = true;
        } else if !done && c.is_uppercase() && c.to_lowercase().count() == 1 {
            out.extend(c.to_lowercase());
            done = true;
        } else {
            out.push(c);
        }
    }
    out
}

struct DefInfo {
    name: String,
    mods: u16,
    has_qty: bool,
    qty_text: bool,
    unit: Option<String>,
    in_step: bool,
    /// strict mode: (is text, unit) of the first reference quantity when the definition has none
    group: Option<(bool, Option<String>)>,
}

struct Builder {
    ext: bool,
    /// timers without a duration (`~rest`) are well formed only without TIMER_REQUIRES_TIME:
    /// generated for the canonical-parser part of C01 only
    bare_timers: bool,
    /// generate nothing that would produce a warning (C07 soundness); C01 only needs "no error"
    igr_defs: Vec<DefInfo>,
    cw_defs: Vec<DefInfo>,
    mode: ModeM,
    dup_ref: bool,
    steps_in_section: u16,
    finished_sections: u16,
    section_has_content: bool,
    section_named: bool,
}

pub fn same_name(a: &str, b: &str) -> bool {
    unicase::eq(a, b)
}

impl Builder {
    fn defs(&mut self, cookware: bool) -> &mut Vec<DefInfo> {
        if cookware {
            &mut self.cw_defs
        } else {
            &mut self.igr_defs
        }
    }

    fn last_def(&self, cookware: bool, name: &str) -> Option<&DefInfo> {
        let v = if cookware { &self.cw_defs } else { &self.igr_defs };
        v.iter().rev().find(|d| same_name(&d.name, name))
    }

    fn qty(&self, r: &RawQty, ingredient: bool) -> QtyM {
        let mut value = match &r.val {
            RawVal::Num(n) => ValM::Num(num_of(n)),
            RawVal::Range(a, b) => {
                if self.ext {
                    ValM::Range(num_of(a), num_of(b))
                } else {
                    ValM::Num(num_of(a))
                }
            }
            RawVal::Text(i) => ValM::Text(TEXT_VALUES[*i as usize % TEXT_VALUES.len()].to_string()),
            RawVal::NumText(i) => {
                if ingredient {
                    ValM::Text(NUM_TEXT_VALUES[*i as usize % NUM_TEXT_VALUES.len()].to_string())
                } else {
                    // cookware has no unit to anchor the `%`: plain text value
                    ValM::Text(TEXT_VALUES[*i as usize % TEXT_VALUES.len()].to_string())
                }
            }
        };
        // mixed numbers / fractions on both sides of a range are fine; keep as is
        if let ValM::Range(a, _) = &value {
            // a range starting with a mixed number is spelled `1 1/2-2`, fine
            let _ = a;
        }
        let mut unit = if ingredient {
            r.unit.map(|u| UNITS[u as usize % UNITS.len()].to_string())
        } else {
            None
        };
        if matches!(r.val, RawVal::NumText(_)) && ingredient && unit.is_none() {
            unit = Some("tbsp".to_string());
        }
        // (the lock is core syntax: it works without any extension)
        let lock = r.lock && ingredient && !value.is_text();
        // blank separator (`1 kg`): Ext, numeric value, unit present and starting with a letter
        let blank_sep = self.ext && r.blank_sep && !value.is_text() && unit.as_ref().is_some_and(|u| u.chars().next().unwrap().is_alphabetic());
        if !ingredient {
            // cookware: value only
            if let ValM::Range(a, _) = &value {
                if !self.ext {
                    value = ValM::Num(a.clone());
                }
            }
        }
        QtyM { lock, value, unit, blank_sep }
    }

    fn comp(&mut self, r: &RawComp, strict: bool) -> CompM {
        let cookware = r.cookware;
        let kind = if cookware { Kind::Cookware } else { Kind::Ingredient };
        let mut name = r
            .name
            .iter()
            .map(|i| NAME_WORDS[*i as usize % NAME_WORDS.len()])
            .collect::<Vec<_>>()
            .join(" ");
        let mut mods: u16 = 0;
        let mut inter = None;
        let mut note = r.note.as_ref().map(|v| v.iter().map(|i| TEXT_WORDS[*i as usize % TEXT_WORDS.len()]).collect::<Vec<_>>().join(" "));
        let mut qty = r.qty.as_ref().map(|q| self.qty(q, !cookware));
        let mut alias = None;
        let mut is_ref = false;

        if self.ext {
            alias = r.alias.map(|a| NAME_WORDS[a as usize % NAME_WORDS.len()].to_string());
            // intermediate reference (ingredients only, outside components mode)
            if let (false, Some((k, v))) = (cookware, r.inter) {
                let v = v as u16 + 1;
                let cand = match k % 4 {
                    0 if v <= self.steps_in_section => Some(InterM::StepNumber(v)),
                    1 if v <= self.steps_in_section => Some(InterM::StepBack(v)),
                    2 if v <= self.finished_sections => Some(InterM::SectionNumber(v)),
                    3 if v <= self.finished_sections => Some(InterM::SectionBack(v)),
                    _ => None,
                };
                if cand.is_some() && self.mode != ModeM::Components && self.mode != ModeM::Text {
                    inter = cand;
                    mods = M_REF | if r.mods & 1 != 0 { M_OPT } else { 0 };
                }
            }
        }
        if inter.is_none() && self.ext {
            // candidate definition to reference
            let ndefs = self.defs(cookware).len();
            let implicit_mode = self.mode == ModeM::Steps;
            let mut target_name: Option<String> = None;
            if let Some(sel) = r.refsel {
                if ndefs > 0 {
                    let d = &self.defs(cookware)[sel as usize % ndefs];
                    target_name = Some(d.name.clone());
                }
            }
            if implicit_mode && target_name.is_none() && ndefs > 0 && r.mods & 16 == 0 {
                // in steps mode every component is a reference; pick one
                let d = &self.defs(cookware)[r.mods as usize % ndefs];
                target_name = Some(d.name.clone());
            }
            if let Some(tn) = target_name {
                is_ref = true;
                name = if r.flip_case { flip(&tn) } else { tn };
            }
            if is_ref {
                let d = self.last_def(cookware, &name).expect("definition exists");
                let inheritable = d.mods & (M_HIDDEN | M_OPT | if cookware { 0 } else { M_RECIPE });
                // written modifiers: `&` (unless the mode makes it implicit) plus a subset of the inheritable ones
                let explicit_amp = !(implicit_mode || (self.dup_ref)) || (!strict && r.mods & 24 == 24);
                mods = if explicit_amp { M_REF } else { 0 };
                if r.mods & 2 != 0 {
                    mods |= inheritable & M_HIDDEN;
                }
                if r.mods & 4 != 0 {
                    mods |= inheritable & M_OPT;
                }
                note = None; // a note on a reference is an error
                // definition outside a step with a quantity: the reference must not carry one
                if d.has_qty && !d.in_step {
                    qty = None;
                }
                if strict {
                    // every quantity of a definition and its references: same kind of value, same unit
                    let grp: Option<(bool, Option<String>)> = if d.has_qty { Some((d.qty_text, d.unit.clone())) } else { d.group.clone() };
                    let dname = d.name.clone();
                    if let Some(q) = &mut qty {
                        match grp {
                            Some((is_text, unit)) => {
                                if q.value.is_text() != is_text {
                                    qty = None;
                                } else {
                                    q.unit = unit;
                                    if q.blank_sep && !q.unit.as_ref().is_some_and(|u| u.chars().next().unwrap().is_alphabetic()) {
                                        q.blank_sep = false;
                                    }
                                }
                            }
                            None => {
                                let g = Some((q.value.is_text(), q.unit.clone()));
                                if let Some(dd) = self.defs(cookware).iter_mut().rev().find(|x| same_name(&x.name, &dname)) {
                                    dd.group = g;
                                }
                            }
                        }
                    }
                }
            } else {
                // definition: modifiers from {recipe (ingredients), hidden, optional}
                if r.mods & 1 != 0 && !cookware {
                    mods |= M_RECIPE;
                }
                if r.mods & 2 != 0 {
                    mods |= M_HIDDEN;
                }
                if r.mods & 4 != 0 {
                    mods |= M_OPT;
                }
                // `+` is needed to define in steps mode, or when duplicate=ref and the name exists
                let needs_new = implicit_mode || (self.dup_ref && self.last_def(cookware, &name).is_some());
                if needs_new {
                    mods |= M_NEW;
                }
            }
        }
        // a text value that starts with a number is only unambiguous with an explicit `%unit`
        if let Some(q) = &qty {
            if matches!(&q.value, ValM::Text(t) if t.starts_with(|c: char| c.is_ascii_digit())) && q.unit.is_none() {
                qty = None;
            }
        }
        // braces
        let single = is_plain_word(&name) && !name.contains(' ');
        let mut braces = r.braces || !single || qty.is_some() || alias.is_some();
        if !self.ext {
            alias = None;
        }
        if inter.is_some() {
            braces = true;
        }
        // register definition
        if !is_ref && inter.is_none() {
            let in_step = self.mode != ModeM::Components;
            let info = DefInfo {
                name: name.clone(),
                mods,
                has_qty: qty.is_some(),
                qty_text: qty.as_ref().is_some_and(|q| q.value.is_text()),
                unit: qty.as_ref().and_then(|q| q.unit.clone()),
                in_step,
                group: None,
            };
            self.defs(cookware).push(info);
        }
        CompM { kind, mods, inter, name, alias, qty, note, braces }
    }

    fn timer(&self, r: &RawTimer) -> TimerM {
        let name = r.name.map(|n| NAME_WORDS[n as usize % NAME_WORDS.len()].to_string());
        let value = match (&r.range_to, self.ext) {
            (Some(b), true) => ValM::Range(num_of(&r.num), num_of(b)),
            _ => ValM::Num(num_of(&r.num)),
        };
        let unit = TIME_UNITS[r.unit as usize % TIME_UNITS.len()].to_string();
        let mut qty = Some(QtyM { lock: false, value, unit: Some(unit), blank_sep: false });
        let mut braces = true;
        // a timer without duration is well formed only when it has a name and the parser does not
        // require a time (C02 excludes it from the "core" family)
        if self.bare_timers && r.no_qty && name.is_some() {
            qty = None;
            braces = !(name.as_ref().is_some_and(|n| is_plain_word(n)) && r.unit % 2 == 0);
        }
        TimerM { name, qty, braces }
    }
}

/// Turns a raw recipe into a well-formed model. `strict`: also avoid every construct that is
/// documented to produce a warning (used for the soundness half of C07).
pub fn build(raw: &RawRecipe, strict: bool) -> RecipeM {
    build_with(raw, strict, false)
}

pub fn build_with(raw: &RawRecipe, strict: bool, bare_timers: bool) -> RecipeM {
    build_impl(raw, strict, bare_timers && !raw.ext)
}

/// Ext-level recipes whose timers may lack a duration: well formed for an extended parser without
/// TIMER_REQUIRES_TIME
pub fn build_ext_with_bare_timers(raw: &RawRecipe) -> RecipeM {
    build_impl(raw, false, true)
}

fn build_impl(raw: &RawRecipe, strict: bool, bare_timers: bool) -> RecipeM {
    let ext = raw.ext;
    let mut b = Builder {
        ext,
        bare_timers,
        igr_defs: vec![],
        cw_defs: vec![],
        mode: ModeM::All,
        dup_ref: false,
        steps_in_section: 0,
        finished_sections: 0,
        section_has_content: false,
        section_named: false,
    };
    // front matter
    let mut used_keys: Vec<String> = vec![];
    let front = raw.front.as_ref().map(|entries| {
        let mut out: Vec<(String, YamlM)> = vec![];
        for s in &raw.front_std {
            let (k, _, y) = std_meta(*s);
            if !out.iter().any(|(k2, _)| k2 == k || (is_servings_key(k) && is_servings_key(k2))) {
                out.push((k.to_string(), y));
            }
        }
        // `time` together with `prep time` warns: keep one
        if out.iter().any(|(k, _)| k == "time") {
            out.retain(|(k, _)| k != "prep time");
        }
        for (k, v) in entries {
            let key = META_KEYS[*k as usize % META_KEYS.len()].to_string();
            if out.iter().any(|(k2, _)| *k2 == key) {
                continue;
            }
            out.push((key, yaml_of(v, 0)));
        }
        out
    });
    let has_front = front.is_some();
    let mut blocks: Vec<BlockM> = vec![];
    for rb in &raw.blocks {
        match rb {
            RawBlock::Section(n) => {
                let name = n.map(|i| SECTION_NAMES[i as usize % SECTION_NAMES.len()].to_string());
                // close current section (only non-empty sections exist)
                if b.section_has_content || b.section_named {
                    b.finished_sections += 1;
                }
                b.section_named = name.is_some();
                b.section_has_content = false;
                b.steps_in_section = 0;
                blocks.push(BlockM::Section(name));
            }
            RawBlock::Mode(m) => {
                if !ext {
                    continue;
                }
                let m = match m % 6 {
                    0 => ModeM::All,
                    1 => ModeM::Components,
                    2 => ModeM::Steps,
                    3 => ModeM::Text,
                    4 => ModeM::DupNew,
                    _ => ModeM::DupRef,
                };
                match m {
                    ModeM::DupNew => b.dup_ref = false,
                    ModeM::DupRef => b.dup_ref = true,
                    other => b.mode = other,
                }
                blocks.push(BlockM::Mode(m));
            }
            RawBlock::Meta(k, v) => {
                if has_front {
                    // with a front matter, `>>` lines are plain steps (their text is the line)
                    if matches!(b.mode, ModeM::All | ModeM::Steps) && (*k as usize + *v as usize) % 3 != 0 {
                        let line = STEP_LINES[(*k as usize * 7 + *v as usize) % STEP_LINES.len()];
                        b.section_has_content = true;
                        b.steps_in_section += 1;
                        blocks.push(BlockM::StepLine(line.to_string()));
                    }
                    continue;
                }
                let key = META_KEYS[*k as usize % META_KEYS.len()].to_string();
                if used_keys.contains(&key) {
                    continue;
                }
                used_keys.push(key.clone());
                blocks.push(BlockM::Meta(key, META_VALUES[*v as usize % META_VALUES.len()].to_string()));
            }
            RawBlock::StdMeta(s) => {
                if has_front {
                    continue;
                }
                let (k, v, _) = std_meta(*s);
                if used_keys.iter().any(|u| u == k || (is_servings_key(k) && is_servings_key(u))) {
                    continue;
                }
                if (k == "time" && used_keys.iter().any(|u| u == "prep time")) || (k == "prep time" && used_keys.iter().any(|u| u == "time")) {
                    continue;
                }
                used_keys.push(k.to_string());
                blocks.push(BlockM::Meta(k.to_string(), v.to_string()));
            }
            RawBlock::Text(lines) => {
                let lines: Vec<String> = lines
                    .iter()
                    .map(|l| l.iter().map(|i| TEXT_WORDS[*i as usize % TEXT_WORDS.len()]).collect::<Vec<_>>().join(" "))
                    .collect();
                b.section_has_content = true;
                blocks.push(BlockM::Text(lines));
            }
            RawBlock::Step(toks) => {
                let mut out: Vec<StepTok> = vec![];
                let mode = b.mode;
                let mut digits_in_segment = false;
                for (sp, t) in toks {
                    let mut space_before = *sp;
                    let tok = match t {
                        RawTok::Word(i) => TokM::Word(TEXT_WORDS[*i as usize % TEXT_WORDS.len()].to_string()),
                        RawTok::Punct(i) => TokM::Punct(PUNCT[*i as usize % PUNCT.len()].to_string()),
                        RawTok::Escaped(i) => TokM::Escaped(ESCAPED[*i as usize % ESCAPED.len()]),
                        RawTok::Num(i) => TokM::Num(TEXT_NUMS[*i as usize % TEXT_NUMS.len()].to_string()),
                        RawTok::Comp(_) | RawTok::Timer(_) if mode == ModeM::Text && strict => TokM::Word("then".into()),
                        // in text mode a component is ignored and kept as written (a warning, not an error)
                        RawTok::Comp(c) if mode == ModeM::Text => TokM::Raw(TEXT_MODE_COMPONENTS[(c.name[0] as usize + c.mods as usize) % TEXT_MODE_COMPONENTS.len()].to_string()),
                        RawTok::Timer(t) if mode == ModeM::Text => TokM::Raw(["~rest{5%min}", "~{10%minutes}", "~proof{1-2%hours}"][t.unit as usize % 3].to_string()),
                        RawTok::Comp(c) => TokM::Comp(b.comp(c, strict)),
                        RawTok::Timer(t) => TokM::Timer(b.timer(t)),
                        RawTok::Inline(n, u, g) => TokM::Inline {
                            number: INLINE_NUMS[*n as usize % INLINE_NUMS.len()].to_string(),
                            unit: INLINE_UNITS[*u as usize % INLINE_UNITS.len()].to_string(),
                            glued: *g,
                        },
                    };
                    // mode restrictions
                    let is_component = matches!(tok, TokM::Comp(_) | TokM::Timer(_));
                    let tok = match (mode, tok) {
                        (ModeM::Components, TokM::Word(_) | TokM::Num(_) | TokM::Inline { .. }) => TokM::Punct(",".into()),
                        (ModeM::Components, TokM::Escaped(c)) if c.is_alphanumeric() => TokM::Punct(",".into()),
                        (ModeM::Text, TokM::Comp(_) | TokM::Timer(_)) => TokM::Word("then".into()),
                        (_, t) => t,
                    };
                    let _ = is_component;
                    // an inline quantity is only unambiguous when no digit precedes it in the same
                    // text segment, it is preceded by a blank (or starts the segment) and followed by a blank;
                    // Core recipes never contain number + known unit
                    let tok = match tok {
                        TokM::Inline { .. } if !ext || digits_in_segment || mode == ModeM::Text => TokM::Word("warm".into()),
                        t => t,
                    };
                    match &tok {
                        TokM::Comp(_) | TokM::Timer(_) => digits_in_segment = false,
                        TokM::Num(_) | TokM::Inline { .. } => digits_in_segment = true,
                        TokM::Word(w) if w.chars().any(|c| c.is_ascii_digit()) => digits_in_segment = true,
                        _ => {}
                    }
                    // adjacency rules
                    if let Some(prev) = out.last() {
                        match (&prev.tok, &tok) {
                            // a number is always followed by blank + word
                            (TokM::Num(_), _) => {
                                space_before = true;
                            }
                            // after an inline quantity a blank is needed (unit ends at whitespace)
                            (TokM::Inline { .. }, _) => space_before = true,
                            // a component kept as text ends where it was written: a glued `(` or word would be
                            // absorbed into it (note, name) together with its escapes
                            (TokM::Raw(_), _) => space_before = true,
                            // `(` glued after a component would be a note
                            (TokM::Comp(_) | TokM::Timer(_), TokM::Punct(p)) if p == "(" => space_before = true,
                            // a word / number glued after a brace-less component would extend its name
                            (TokM::Comp(c), TokM::Word(_) | TokM::Num(_) | TokM::Inline { .. }) if !c.braces => space_before = true,
                            (TokM::Comp(c), TokM::Escaped(_)) if !c.braces => space_before = true,
                            (TokM::Timer(t), TokM::Word(_) | TokM::Num(_) | TokM::Inline { .. } | TokM::Escaped(_)) if !t.braces => space_before = true,
                            // `|` after a brace-less component is harmless, `{` never appears raw
                            // two dashes in a row would open a comment; `[` + `-` too
                            (TokM::Punct(a), TokM::Punct(b2)) if a == "-" && b2 == "-" => space_before = true,
                            (TokM::Escaped('['), TokM::Punct(b2)) if b2 == "-" => space_before = true,
                            (TokM::Escaped('-'), TokM::Punct(b2)) if b2 == "-" => space_before = true,
                            (TokM::Punct(a), TokM::Punct(b2)) if a == ">" && b2 == ">" => space_before = true,
                            // an inline quantity needs a blank before the number (else it is part of a word)
                            (_, TokM::Inline { .. }) => space_before = true,
                            // `-` directly before a number in text would read as a sign
                            (TokM::Punct(a), TokM::Num(_)) if a == "-" => space_before = true,
                            (TokM::Escaped('-'), TokM::Num(_)) => space_before = true,
                            // digits glued to a preceding word are fine (`x2`), but keep numbers separate
                            (TokM::Word(_), TokM::Num(_)) => space_before = true,
                            _ => {}
                        }
                    }
                    out.push(StepTok { space_before, tok });
                }
                // a number must be followed by blank + vocabulary word
                let mut i = 0;
                while i < out.len() {
                    if matches!(out[i].tok, TokM::Num(_)) {
                        let ok = out.get(i + 1).is_some_and(|n| matches!(n.tok, TokM::Word(_)));
                        if !ok {
                            out.insert(i + 1, StepTok { space_before: true, tok: TokM::Word("of".into()) });
                        } else {
                            out[i + 1].space_before = true;
                        }
                    }
                    i += 1;
                }
                // the first token of a step must not be a block marker (`>`, `=`, `>>`): start with a word
                // unless the step starts with a component
                match out.first().map(|t| &t.tok) {
                    Some(TokM::Comp(_)) | Some(TokM::Timer(_)) | Some(TokM::Word(_)) => {}
                    _ => {
                        if mode == ModeM::Components {
                            // components mode: must start with a component; drop leading separators
                            while out.first().is_some_and(|t| !matches!(t.tok, TokM::Comp(_) | TokM::Timer(_))) {
                                out.remove(0);
                            }
                        } else {
                            out.insert(0, StepTok { space_before: false, tok: TokM::Word("Mix".into()) });
                            if out.len() > 1 {
                                out[1].space_before = true;
                            }
                        }
                    }
                }
                if out.is_empty() {
                    continue;
                }
                out[0].space_before = false;
                // bookkeeping
                match mode {
                    ModeM::Components => {}
                    ModeM::Text => b.section_has_content = true,
                    _ => {
                        b.section_has_content = true;
                        b.steps_in_section += 1;
                    }
                }
                blocks.push(BlockM::Step(out));
            }
        }
    }
    RecipeM { level: if ext { Level::Ext } else { Level::Core }, front, blocks }
}
