//! C13 — standard metadata values are interpreted as documented.

use std::sync::LazyLock;

use cooklang::convert::{ConverterBuilder, UnitsFile};
use cooklang::metadata::{CooklangValueExt, RecipeTime};
use cooklang::{Converter, CooklangParser, Extensions};
use proptest::prelude::*;
use serde::{Deserialize, Serialize};
use serde_json::json;

use crate::common::*;
use crate::pipeline::{BUNDLED, EMPTY};
use crate::print::yaml_quote;
use crate::{vbail, vensure};

const SPANISH_UNITS: &str = r#"
default_system = "metric"
[[quantity]]
quantity = "time"
best = ["s", "min", "h", "d"]
units = [
    { names = ["segundo", "segundos"], symbols = ["s"], ratio = 1 },
    { names = ["minuto", "minutos"], symbols = ["min"], ratio = 60 },
    { names = ["hora", "horas"], symbols = ["h"], ratio = 3600 },
    { names = ["día", "días"], symbols = ["d"], ratio = 86400 },
]
[[quantity]]
quantity = "volume"
best = ["l"]
units = [ { names = ["litro"], symbols = ["l"], ratio = 1 } ]
[[quantity]]
quantity = "mass"
best = ["g"]
units = [ { names = ["gramo"], symbols = ["g"], ratio = 1 } ]
[[quantity]]
quantity = "length"
best = ["m"]
units = [ { names = ["metro"], symbols = ["m"], ratio = 1 } ]
[[quantity]]
quantity = "temperature"
best = ["C"]
units = [ { names = ["celsius"], symbols = ["C"], ratio = 1, difference = 273.15 } ]
"#;

/// a converter whose time units have no key `min` / `minute` / `minutes` / `m` (there `m` is the metre):
/// the unit-based duration reader has no minutes unit to convert to, so number-unit durations are outside
/// what it documents; lengths in particular must never be read as durations
static NOMIN: LazyLock<Converter> = LazyLock::new(|| {
    let text = SPANISH_UNITS
        .replace("symbols = [\"min\"]", "symbols = [\"mto\"]")
        .replace("best = [\"s\", \"min\", \"h\", \"d\"]", "best = [\"s\", \"mto\", \"h\", \"d\"]")
        .replace("units = [ { names = [\"metro\"], symbols = [\"m\"], ratio = 1 } ]", "units = [ { names = [\"metro\"], symbols = [\"m\"], ratio = 1 }, { names = [\"kilometro\"], symbols = [\"km\"], ratio = 1000 }, { names = [\"centimetro\"], symbols = [\"cm\"], ratio = 0.01 } ]");
    assert!(text.contains("mto") && text.contains("kilometro"), "NOMIN units text");
    let f: UnitsFile = toml::from_str(&text).expect("nomin units toml");
    let c = ConverterBuilder::new().with_units_file(f).expect("add").finish().expect("finish");
    assert!(c.find_unit("min").is_none() && c.find_unit("minute").is_none() && c.find_unit("minutes").is_none());
    c
});

/// a renamed-units converter in which the key `min` belongs to a unit that is not a time unit (the minim, a
/// volume) while `minute` / `minutes` name the minute: the time units are known, so durations written in them read
static MINIM: LazyLock<Converter> = LazyLock::new(|| {
    let text = SPANISH_UNITS
        .replace("{ names = [\"minuto\", \"minutos\"], symbols = [\"min\"], ratio = 60 }", "{ names = [\"minute\", \"minutes\", \"minuto\"], symbols = [\"mn\"], ratio = 60 }")
        .replace("best = [\"s\", \"min\", \"h\", \"d\"]", "best = [\"s\", \"mn\", \"h\", \"d\"]")
        .replace("units = [ { names = [\"litro\"], symbols = [\"l\"], ratio = 1 } ]", "units = [ { names = [\"litro\"], symbols = [\"l\"], ratio = 1 }, { names = [\"minim\"], symbols = [\"min\"], ratio = 0.0000616 } ]");
    assert!(text.contains("minim") && text.contains("\"mn\""), "MINIM units text");
    let f: UnitsFile = toml::from_str(&text).expect("minim units toml");
    let c = ConverterBuilder::new().with_units_file(f).expect("add").finish().expect("finish");
    assert!(c.find_unit("min").is_some_and(|u| u.physical_quantity == cooklang::convert::PhysicalQuantity::Volume) && c.find_unit("minutes").is_some());
    c
});

static SPANISH: LazyLock<Converter> = LazyLock::new(|| {
    let f: UnitsFile = toml::from_str(SPANISH_UNITS).expect("spanish units toml");
    ConverterBuilder::new().with_units_file(f).expect("add").finish().expect("finish")
});

/// (unit key, seconds) known as time units by converter `conv` (0 empty = hard-coded list, 1 bundled, 2 renamed)
fn time_units(conv: u8) -> &'static [(&'static str, u64)] {
    match conv {
        0 => &[("s", 1), ("sec", 1), ("secs", 1), ("second", 1), ("seconds", 1), ("m", 60), ("min", 60), ("minute", 60), ("minutes", 60), ("h", 3600), ("hour", 3600), ("hours", 3600), ("d", 86400), ("day", 86400), ("days", 86400)],
        1 => &[("s", 1), ("sec", 1), ("secs", 1), ("second", 1), ("seconds", 1), ("min", 60), ("mins", 60), ("minute", 60), ("minutes", 60), ("h", 3600), ("hour", 3600), ("hours", 3600), ("d", 86400), ("day", 86400), ("days", 86400)],
        2 => &[("s", 1), ("segundo", 1), ("segundos", 1), ("min", 60), ("minuto", 60), ("minutos", 60), ("h", 3600), ("hora", 3600), ("horas", 3600), ("d", 86400), ("día", 86400), ("días", 86400)],
        4 => &[("s", 1), ("segundo", 1), ("segundos", 1), ("mn", 60), ("minute", 60), ("minutes", 60), ("minuto", 60), ("h", 3600), ("hora", 3600), ("horas", 3600), ("d", 86400), ("día", 86400), ("días", 86400)],
        // converter without a minutes unit: the pairs are written in its length units and must be refused
        // (`m` itself is left out: `5m` is the documented compact form)
        _ => &[("km", 0), ("cm", 0), ("metro", 0), ("kilometro", 0), ("centimetro", 0)],
    }
}

fn conv_of(c: u8) -> &'static Converter {
    match c {
        0 => &EMPTY,
        1 => &BUNDLED,
        2 => &SPANISH,
        4 => &MINIM,
        _ => &NOMIN,
    }
}

static PARSERS: LazyLock<[CooklangParser; 5]> = LazyLock::new(|| {
    [
        CooklangParser::new(Extensions::all(), EMPTY.clone()),
        CooklangParser::new(Extensions::all(), BUNDLED.clone()),
        CooklangParser::new(Extensions::all(), SPANISH.clone()),
        CooklangParser::new(Extensions::all(), NOMIN.clone()),
        CooklangParser::new(Extensions::all(), MINIM.clone()),
    ]
});

#[derive(Debug, Clone, Serialize, Deserialize)]
pub enum Spec {
    /// minutes as integer / decimal: (thousandths, as_string)
    Minutes { milli: u64, as_string: bool },
    /// compact HhMm: hours, minutes (either may be absent)
    Compact { h: Option<u64>, m: Option<u64> },
    /// number-unit pairs: (thousandths, unit index, blank between number and unit)
    Pairs(Vec<(u64, u8, bool)>),
    /// undocumented duration
    BadTime(u8),
    ServingsInt(u64),
    /// `a|b|c` string or list: (number, trailing words)
    ServingsList { items: Vec<(u32, u8)>, as_list: bool },
    BadServings(u8),
    Tags { items: Vec<u8>, as_list: bool },
    BadTags(u8),
    /// name/url forms: form index
    NameUrl(u8),
    /// mapping forms and padded forms
    NameUrlMore(u8),
    BadNameUrl(u8),
    Locale(u8),
    BadLocale(u8),
}

#[derive(Debug, Clone, Serialize, Deserialize)]
pub struct Case {
    pub spec: Spec,
    pub key_variant: u8,
    pub old_style: bool,
    pub conv: u8,
}

#[derive(Debug, Clone, PartialEq)]
enum Expect {
    /// exact total in 1/60000 minutes; None => must be refused
    Minutes(Option<u128>),
    Servings(Option<Vec<u32>>),
    Tags(Option<Vec<String>>),
    NameUrl(Option<(Option<String>, Option<String>)>),
    Locale(Option<(String, Option<String>)>),
}

const SERVING_WORDS: &[&str] = &["", " servings", " cups worth", " big", " small ones", "-ish", "人分", "é", "½ loaves", "ª", "\u{a0}portions", "個"];
const TAG_POOL: &[&str] = &["vegan", "quick", "", "2022", "gluten free", "vegan", " spicy ", "a", "\u{a0}soup\u{a0}", "\u{3000}", "\u{2003}tea", " soup\u{a0}", "\u{2009}"];
const BAD_TIMES: &[&str] = &["soon", "1hour30min", "5 parsecs", "-5", "inf", "nan", "1e20", "4294967296", "99999999h", "1h4294967295m", "71582789h", "1 h 4294967295 min", "h", "10 min 5", "1.5.2 h", "1h30", "٣ h", "1h -30min", "+5 min", "2 hours -30 min", "-1 min 2 min", "1 h +5 min", "1e2 min", "0x10 min", "   ", "\t", "-0.4", "-0.49 min", "-0.2h",
    // a group given twice, groups out of order, a zero amount of something that is no time unit
    "1h2h", "1h1h30m", "0h2h5m", "30m1h", "1m2m", "0 parsecs", "1 h 0 bananas", "0 km", "1 h 0.0 g", "00 lightyears"];
const BAD_TIME_YAML: &[&str] = &["{prep: 10, cook: until golden}", "{prep: 10, cook: 4294967296}", "{prep: soon}", "{cook: [20]}", "{prep: 10, cook: 2 parsecs}", "[10, 20]", "{prep: -5, cook: 1}", "{prep: 1h, cook: {a: 1}}", "{}", "{foo: 1}", "{preparation: 10}", "12.5", "7.5", "{prep: 2.5, cook: 10}", "0.4", "-1", "-7", "{cook: 0.5}"];
const BAD_SERVINGS: &[&str] = &["many", "2|2", "1|2|1", "x2", "-3", "4294967296", "|", "3 | many", "2|4|", "|2", "2||4", "2|4| ", "2 |", "||"];
const LOCALES: &[&str] = &["en", "es_ES", "en_gb", "DE", "pt_BR"];
const BAD_LOCALES: &[&str] = &["english", "e", "en-GB", "en_GBR", "e1", "en_", "_GB", "ça", "en_G1"];

fn fmt_milli(m: u64) -> String {
    if m % 1000 == 0 {
        (m / 1000).to_string()
    } else {
        let s = format!("{}.{:03}", m / 1000, m % 1000);
        s.trim_end_matches('0').to_string()
    }
}

/// returns (yaml value text, `>>` value text if expressible, expectation, family of std keys)
fn render(c: &Case) -> (String, Option<String>, Expect, &'static [&'static str]) {
    const TIME_KEYS: &[&str] = &["time", "prep time", "cook time", "duration", "prep_time", "cook_time", "time required"];
    const SERV_KEYS: &[&str] = &["servings", "serves", "yield"];
    const TAG_KEYS: &[&str] = &["tags", "tag"];
    const WHO_KEYS: &[&str] = &["author", "source"];
    const LOC_KEYS: &[&str] = &["locale"];
    let units = time_units(c.conv % 5);
    match &c.spec {
        Spec::Minutes { milli, as_string } => {
            let txt = fmt_milli(*milli);
            let exact = (*milli as u128) * 60; // in 1/60000 min
            let is_int = milli % 1000 == 0;
            // a YAML number is only documented as a natural number; decimals must be strings
            let yaml = if *as_string || !is_int { yaml_quote(&txt) } else { txt.clone() };
            (yaml, Some(txt), Expect::Minutes(Some(exact)), TIME_KEYS)
        }
        Spec::Compact { h, m } => {
            let mut s = String::new();
            if let Some(h) = h {
                s.push_str(&format!("{h}h"));
            }
            if let Some(m) = m {
                s.push_str(&format!("{m}m"));
            }
            if s.is_empty() {
                s = "0m".into();
            }
            let exact = (h.unwrap_or(0) as u128 * 60 + m.unwrap_or(0) as u128) * 60000;
            (yaml_quote(&s), Some(s), Expect::Minutes(Some(exact)), TIME_KEYS)
        }
        Spec::Pairs(p) => {
            let mut parts = vec![];
            let mut exact: u128 = 0;
            for (milli, u, blank) in p {
                let (name, secs) = units[*u as usize % units.len()];
                parts.push(format!("{}{}{}", fmt_milli(*milli), if *blank { " " } else { "" }, name));
                exact += *milli as u128 * secs as u128; // milli-seconds ... = 1/60000 min
            }
            let s = parts.join(" ");
            let e = if c.conv % 5 == 3 { None } else { Some(exact) };
            (yaml_quote(&s), Some(s), Expect::Minutes(e), TIME_KEYS)
        }
        // the index space is split so that appending to a list never changes what an index stands for
        // (regression files hold indices): 0..150 strings, 150..220 YAML values, 220.. part-key mappings
        // a {prep, cook} mapping belongs to `time` only: under a prep / cook key it is not a documented form
        Spec::BadTime(i) if *i >= 220 => {
            const PART_KEYS: &[&str] = &["prep time", "cook time", "prep_time", "cook_time"];
            let k = (*i - 220) as usize;
            let y = ["{prep: 10}", "{cook: 20 min}", "{prep: 10, cook: 20}", "{}"][k / 4 % 4];
            (y.to_string(), None, Expect::Minutes(None), &PART_KEYS[k % 4..k % 4 + 1])
        }
        // mappings, lists and unquoted numbers: YAML only
        Spec::BadTime(i) if *i >= 150 => {
            let y = BAD_TIME_YAML[(*i - 150) as usize % BAD_TIME_YAML.len()];
            (y.to_string(), None, Expect::Minutes(None), TIME_KEYS)
        }
        Spec::BadTime(i) => {
            let s = BAD_TIMES[*i as usize % BAD_TIMES.len()];
            (yaml_quote(s), Some(s.to_string()), Expect::Minutes(None), TIME_KEYS)
        }
        Spec::ServingsInt(n) => {
            let e = if *n <= u32::MAX as u64 { Some(vec![*n as u32]) } else { None };
            (n.to_string(), Some(n.to_string()), Expect::Servings(e), SERV_KEYS)
        }
        Spec::ServingsList { items, as_list } => {
            let texts: Vec<String> = items.iter().map(|(n, w)| format!("{n}{}", SERVING_WORDS[*w as usize % SERVING_WORDS.len()])).collect();
            let nums: Vec<u32> = items.iter().map(|(n, _)| *n).collect();
            let mut sorted = nums.clone();
            sorted.sort_unstable();
            sorted.dedup();
            let e = if sorted.len() == nums.len() && !nums.is_empty() { Some(nums) } else { None };
            let (yaml, old) = if *as_list {
                (format!("[{}]", texts.iter().map(|t| if t.chars().all(|c| c.is_ascii_digit()) { t.clone() } else { yaml_quote(t) }).collect::<Vec<_>>().join(", ")), None)
            } else {
                let s = texts.join(" | ");
                (yaml_quote(&s), Some(s))
            };
            // an empty list/string has no numbers: not a documented form; leave it unconstrained
            (yaml, old, if items.is_empty() { Expect::Servings(None) } else { Expect::Servings(e) }, SERV_KEYS)
        }
        Spec::BadServings(i) => {
            let s = BAD_SERVINGS[*i as usize % BAD_SERVINGS.len()];
            (yaml_quote(s), Some(s.to_string()), Expect::Servings(None), SERV_KEYS)
        }
        Spec::Tags { items, as_list } => {
            let raw: Vec<&str> = items.iter().map(|i| TAG_POOL[*i as usize % TAG_POOL.len()]).collect();
            let mut e: Vec<String> = vec![];
            for t in &raw {
                // the property: "the trimmed, de-duplicated, non-empty entries of a comma string or list"
                let t = t.trim();
                if t.is_empty() || e.iter().any(|x| x == t) {
                    continue;
                }
                e.push(t.to_string());
            }
            if *as_list {
                (format!("[{}]", raw.iter().map(|t| yaml_quote(t)).collect::<Vec<_>>().join(", ")), None, Expect::Tags(Some(e)), TAG_KEYS)
            } else {
                let s = raw.join(",");
                (yaml_quote(&s), Some(s), Expect::Tags(Some(e)), TAG_KEYS)
            }
        }
        Spec::BadTags(i) => {
            let y = ["true", "{a: b}", "[[a]]", "[{a: 1}]", "~"][*i as usize % 5];
            (y.to_string(), None, Expect::Tags(None), TAG_KEYS)
        }
        Spec::NameUrl(i) => {
            // URLs that embed another URL (archive and redirect links) are URLs like any other
            let url = ["https://moms-cookbook.example/r?x=1", "https://web.archive.org/web/2020/https://example.com/apple-pie", "http://go.example/?to=http://z.example/x", "ftp://files.example/r.txt", "https://a.b"][(*i as usize / 13) % 5];
            let (s, name, u): (String, Option<&str>, Option<&str>) = match i % 13 {
                // no scheme: not a URL, so the whole string is the name
                9 => ("://x".into(), Some("://x"), None),
                10 => ("Mom <://x.y/z>".into(), Some("Mom <://x.y/z>"), None),
                // several angle bracket groups: not the documented form, the whole string is the name
                11 => ("Mom <https://moms-cookbook.example/r?x=1><https://moms-cookbook.example/r?x=1>".into(), Some("Mom <https://moms-cookbook.example/r?x=1><https://moms-cookbook.example/r?x=1>"), None),
                12 => ("Mom <https://a.b/c<d>".into(), Some("Mom <https://a.b/c<d>"), None),
                0 => (format!("Mom's Cookbook <{url}>"), Some("Mom's Cookbook"), Some(url)),
                1 => ("Mom <not a url>".into(), Some("Mom <not a url>"), None),
                2 => ("Mom R. Smith".into(), Some("Mom R. Smith"), None),
                3 => ("example.org/page".into(), Some("example.org/page"), None),
                4 => ("<not a url>".into(), Some("<not a url>"), None),
                5 => (url.to_string(), None, Some(url)),
                6 => (format!("<{url}>"), None, Some(url)),
                7 => ("Mom <http//broken>".into(), Some("Mom <http//broken>"), None),
                _ => (format!("  Padded Name   <{url}>  "), Some("Padded Name"), Some(url)),
            };
            let old = s.trim().to_string();
            (yaml_quote(&s), Some(old), Expect::NameUrl(Some((name.map(String::from), u.map(String::from)))), WHO_KEYS)
        }
        Spec::NameUrlMore(i) => {
            let url = ["https://a.b/c", "https://web.archive.org/web/2020/https://example.com/p"][(*i as usize / 8) % 2];
            // (yaml, `>>` text if the form is a string, name, url)
            let (y, old, name, u): (String, Option<String>, Option<&str>, Option<&str>) = match i % 8 {
                0 => (format!("{{name: Mom, url: \"{url}\"}}"), None, Some("Mom"), Some(url)),
                1 => (format!("{{name: \"  Mom  \", url: \"  {url}  \"}}"), None, Some("Mom"), Some(url)),
                2 => ("{name: Ann, url: \"  \"}".into(), None, Some("Ann"), None),
                3 => (format!("{{url: \"{url}\"}}"), None, None, Some(url)),
                4 => ("{name: Ann}".into(), None, Some("Ann"), None),
                5 => (format!("{{url: \"{url}\", name: \"\", extra: 1}}"), None, None, Some(url)),
                // blanks inside the brackets: the URL is what is between them without the padding
                6 => (yaml_quote(&format!("Ann < {url} >")), Some(format!("Ann < {url} >")), Some("Ann"), Some(url)),
                _ => (yaml_quote(&format!("<  {url}\t>")), Some(format!("<  {url}\t>")), None, Some(url)),
            };
            (y, old, Expect::NameUrl(Some((name.map(String::from), u.map(String::from)))), WHO_KEYS)
        }
        Spec::BadNameUrl(i) => {
            let y = ["[a, b]", "true", "{nome: x}", "~"][*i as usize % 4];
            (y.to_string(), None, Expect::NameUrl(None), WHO_KEYS)
        }
        Spec::Locale(i) => {
            let s = LOCALES[*i as usize % LOCALES.len()];
            let e = match s.split_once('_') {
                Some((a, b)) => (a.to_string(), Some(b.to_string())),
                None => (s.to_string(), None),
            };
            (yaml_quote(s), Some(s.to_string()), Expect::Locale(Some(e)), LOC_KEYS)
        }
        Spec::BadLocale(i) => {
            let s = BAD_LOCALES[*i as usize % BAD_LOCALES.len()];
            (yaml_quote(s), Some(s.to_string()), Expect::Locale(None), LOC_KEYS)
        }
    }
}

fn minutes_ok(got: u32, exact60000: u128) -> bool {
    // |got - exact| <= 1/2 (+ float noise of the implementation's f64 accumulation)
    let g = got as u128 * 60000;
    let d = if g > exact60000 { g - exact60000 } else { exact60000 - g };
    let noise = 1 + exact60000 / 1_000_000_000_000; // 1/60000 min + 1e-12 relative
    d <= 30000 + noise
}

pub fn oracle(c: &Case, st: &mut Stats) -> Verdict {
    let (yaml, old, expect, keys) = render(c);
    let key = keys[c.key_variant as usize % keys.len()];
    let old_style = c.old_style && old.is_some();
    let src = if old_style {
        format!(">> {key}: {}\n\nMix @salt{{1%g}}.\n", old.as_ref().unwrap())
    } else {
        format!("---\n{key}: {yaml}\n---\nMix @salt{{1%g}}.\n")
    };
    if old_style && old.as_ref().unwrap().trim().is_empty() {
        // an empty `>>` value gets the parser's own "empty value" warning: not a std-key matter
        st.exclude("empty `>>` value");
        return Ok(());
    }
    let conv = conv_of(c.conv % 5);
    let p = &PARSERS[(c.conv % 5) as usize];
    let res = match guard(|| p.parse(&src)) {
        Ok(r) => r,
        Err(e) => vbail!("c13.panic.parse", "parse panicked: {e}; source {src:?}"),
    };
    vensure!(res.is_valid(), "c13.invalid", "a metadata value must never make the recipe invalid: {:?}; source {src:?}", res.report().errors().map(|e| e.message.to_string()).collect::<Vec<_>>());
    let warnings = res.report().warnings().count();
    // `>>` entries always come with exactly one deprecation notice
    let unsupported = if old_style { warnings.saturating_sub(1) } else { warnings };
    // the same entry after another one for which a metadata validator switches the standard checks off:
    // what the validator says about one entry must not carry over to the next
    {
        let src2 = if old_style { format!(">> x-first: 1\n{src}") } else { src.replacen("---\n", "---\nx-first: 1\n", 1) };
        let opts = cooklang::ParseOptions {
            recipe_ref_check: None,
            metadata_validator: Some(Box::new(|k: &serde_yaml::Value, _v: &serde_yaml::Value, o: &mut cooklang::analysis::CheckOptions| {
                if k.as_str() == Some("x-first") {
                    o.run_std_checks(false);
                }
                cooklang::analysis::CheckResult::Ok
            })),
        };
        match guard(|| p.parse_with_options(&src2, opts)) {
            Ok(r2) => {
                let w2 = r2.report().warnings().count();
                vensure!(
                    w2 == warnings && r2.is_valid(),
                    "c13.validator-carries-over",
                    "parsed alone the entry gets {warnings} warning(s); after an entry whose standard checks a validator switched off it gets {w2}; source {src2:?}"
                );
            }
            Err(e) => vbail!("c13.panic.parse", "parse_with_options panicked: {e}; source {src2:?}"),
        }
    }
    let r = res.output().unwrap();
    let Some(raw) = r.metadata.map.get(key) else {
        vbail!("c13.entry-missing", "metadata entry {key:?} missing from the map; source {src:?}");
    };
    st.class(match &c.spec {
        Spec::Minutes { .. } | Spec::Compact { .. } | Spec::Pairs(_) | Spec::BadTime(_) => "time",
        Spec::ServingsInt(_) | Spec::ServingsList { .. } | Spec::BadServings(_) => "servings",
        Spec::Tags { .. } | Spec::BadTags(_) => "tags",
        Spec::NameUrl(_) | Spec::NameUrlMore(_) | Spec::BadNameUrl(_) => "author/source",
        _ => "locale",
    });
    st.class(["empty converter", "bundled converter", "renamed-units converter", "converter without a minutes unit", "renamed-units converter where `min` is a volume"][(c.conv % 5) as usize]);
    st.class(if old_style { "`>>` entry" } else { "front matter" });
    st.nontrivial(&(src.as_str(), c.conv % 5));

    macro_rules! agree {
        ($got:expr, $what:expr) => {
            vensure!(
                $got.is_none() == (unsupported > 0),
                "c13.warning-accessor-disagree",
                "{}: the parser gave {unsupported} unsupported-value warning(s) but the accessor returned {:?}; converter {}; source {src:?}",
                $what,
                $got,
                c.conv % 5
            );
        };
    }
    match expect {
        Expect::Minutes(e) => {
            let got = guard(|| raw.as_minutes(conv)).map_err(|p| Violation::new("c13.panic.accessor", format!("as_minutes panicked: {p}; source {src:?}")))?;
            agree!(got, "as_minutes");
            // through Metadata::time
            let t = guard(|| r.metadata.time(conv)).map_err(|p| Violation::new("c13.panic.accessor", format!("Metadata::time panicked: {p}; source {src:?}")))?;
            let via_meta = match (key, t) {
                ("time" | "duration" | "time required", Some(RecipeTime::Total(t))) => Some(t),
                ("prep time" | "prep_time", Some(RecipeTime::Composed { prep_time, .. })) => prep_time,
                ("cook time" | "cook_time", Some(RecipeTime::Composed { cook_time, .. })) => cook_time,
                _ => None,
            };
            // only the canonical spellings of the key are looked up by Metadata::time
            if matches!(key, "time" | "prep time" | "cook time") {
                vensure!(via_meta == got, "c13.time-accessors-disagree", "Metadata::time gives {via_meta:?} but as_minutes gives {got:?}; source {src:?}");
            }
            match e {
                Some(exact) if exact <= (u32::MAX as u128) * 60000 + 29999 => {
                    let Some(g) = got else {
                        vbail!("c13.documented-form-refused", "documented duration refused (converter {}); source {src:?}", c.conv % 5);
                    };
                    vensure!(
                        minutes_ok(g, exact),
                        "c13.wrong-minutes",
                        "duration reads as {g} minutes, exact value {} minutes (converter {}); source {src:?}",
                        exact as f64 / 60000.0,
                        c.conv % 5
                    );
                }
                Some(exact) => {
                    vensure!(
                        got.is_none() || minutes_ok(got.unwrap(), exact),
                        "c13.out-of-range-accepted",
                        "duration of {} minutes does not fit the result type but reads as {got:?}; source {src:?}",
                        exact as f64 / 60000.0
                    );
                }
                None => vensure!(got.is_none(), "c13.out-of-range-accepted", "undocumented duration reads as {got:?}; source {src:?}"),
            }
            // `time` together with prep / cook time: the accessor reads `time`; the others are only
            // the documented fallback when `time` is missing
            if matches!(key, "time") {
                let val = if old_style { old.clone().unwrap() } else { yaml.clone() };
                let src2 = if old_style {
                    format!(">> prep time: 10\n>> {key}: {val}\n>> cook time: 1h\n\nMix @salt{{1%g}}.\n")
                } else {
                    format!("---\nprep time: 10\n{key}: {val}\ncook time: 1h\n---\nMix @salt{{1%g}}.\n")
                };
                if let Some(r2) = p.parse(&src2).output() {
                    let t2 = guard(|| r2.metadata.time(conv)).map_err(|p| Violation::new("c13.panic.accessor", format!("Metadata::time panicked: {p}; source {src2:?}")))?;
                    let expect2 = got.map(RecipeTime::Total);
                    vensure!(
                        t2 == expect2,
                        "c13.time-fallback-despite-time-key",
                        "with `time`, `prep time` and `cook time` all present Metadata::time gives {t2:?}, `time` alone reads as {got:?}; source {src2:?}"
                    );
                }
            }
        }
        Expect::Servings(e) => {
            let got = raw.as_servings();
            agree!(got, "as_servings");
            vensure!(r.metadata.servings() == got || key != "servings", "c13.servings-accessors-disagree", "Metadata::servings {:?} vs as_servings {got:?}; source {src:?}", r.metadata.servings());
            vensure!(
                r.servings().map(|s| s.to_vec()) == got,
                "c13.recipe-servings-disagree",
                "ScalableRecipe::servings() = {:?} but the metadata accessor gives {got:?}; source {src:?}",
                r.servings()
            );
            let empty_form = matches!(&c.spec, Spec::ServingsList { items, .. } if items.is_empty());
            if !empty_form {
                vensure!(got == e, "c13.wrong-servings", "servings read as {got:?}, expected {e:?}; source {src:?}");
            }
        }
        Expect::Tags(e) => {
            let got = raw.as_tags().map(|v| v.into_iter().map(|c| c.into_owned()).collect::<Vec<_>>());
            agree!(got, "as_tags");
            vensure!(got == e, "c13.wrong-tags", "tags read as {got:?}, expected {e:?}; source {src:?}");
            if key == "tags" {
                let m = r.metadata.tags().map(|v| v.into_iter().map(|c| c.into_owned()).collect::<Vec<_>>());
                vensure!(m == got, "c13.tags-accessors-disagree", "Metadata::tags {m:?} vs as_tags {got:?}");
            }
        }
        Expect::NameUrl(e) => {
            let got = raw.as_name_and_url().map(|n| (n.name().map(String::from), n.url().map(String::from)));
            agree!(got, "as_name_and_url");
            vensure!(got == e, "c13.wrong-name-url", "name/url read as {got:?}, documented reading {e:?}; source {src:?}");
            let m = if key == "author" { r.metadata.author() } else { r.metadata.source() };
            vensure!(m.map(|n| (n.name().map(String::from), n.url().map(String::from))) == got, "c13.name-url-accessors-disagree", "Metadata accessor disagrees with as_name_and_url; source {src:?}");
        }
        Expect::Locale(e) => {
            let got = raw.as_locale().map(|(a, b)| (a.to_string(), b.map(String::from)));
            agree!(got, "as_locale");
            vensure!(got == e, "c13.wrong-locale", "locale read as {got:?}, expected {e:?}; source {src:?}");
        }
    }
    Ok(())
}

fn milli() -> impl Strategy<Value = u64> {
    prop_oneof![
        4 => (0u64..600).prop_map(|n| n * 1000),
        2 => (0u64..600_000),
        1 => (0u64..100).prop_map(|n| n * 1000 + 500),
        1 => (4_294_967_000u64..4_294_967_400).prop_map(|n| n * 1000),
        1 => (0u64..(1u64 << 33)).prop_map(|n| n * 1000),
    ]
}

fn spec() -> impl Strategy<Value = Spec> {
    let hm = prop_oneof![4 => 0u64..100, 1 => 71_582_780u64..71_582_800, 1 => 0u64..(1u64 << 33), 1 => 4_294_967_290u64..4_294_967_300];
    prop_oneof![
        3 => (milli(), any::<bool>()).prop_map(|(milli, as_string)| Spec::Minutes { milli, as_string }),
        3 => (proptest::option::weighted(0.8, hm.clone()), proptest::option::weighted(0.8, hm)).prop_map(|(h, m)| Spec::Compact { h, m }),
        5 => proptest::collection::vec((milli(), any::<u8>(), any::<bool>()), 1..4).prop_map(Spec::Pairs),
        2 => any::<u8>().prop_map(Spec::BadTime),
        1 => prop_oneof![0u64..50, 4_294_967_290u64..4_294_967_300].prop_map(Spec::ServingsInt),
        3 => (proptest::collection::vec((prop_oneof![1u32..12, any::<u32>()], any::<u8>()), 0..5), any::<bool>()).prop_map(|(items, as_list)| Spec::ServingsList { items, as_list }),
        1 => any::<u8>().prop_map(Spec::BadServings),
        2 => (proptest::collection::vec(any::<u8>(), 0..6), any::<bool>()).prop_map(|(items, as_list)| Spec::Tags { items, as_list }),
        1 => any::<u8>().prop_map(Spec::BadTags),
        2 => any::<u8>().prop_map(Spec::NameUrl),
        1 => any::<u8>().prop_map(Spec::NameUrlMore),
        1 => any::<u8>().prop_map(Spec::BadNameUrl),
        1 => any::<u8>().prop_map(Spec::Locale),
        1 => any::<u8>().prop_map(Spec::BadLocale),
    ]
}

pub fn run(tier: Tier) -> i32 {
    let mut run = Run::new("C13", tier);
    run.assume("a YAML number is only documented as a natural number of minutes; decimals are written as strings");
    run.assume("`unsupported value` warnings are counted, not matched by message: every warning in a front-matter recipe, every warning beyond the single deprecation notice in a `>>` recipe");
    run.assume("rounding: either neighbour is accepted when the exact total is within float noise of a half");
    run.replay_regressions(&|_p, j| oracle(&case_from(j)?, &mut Stats::default()));
    if !run.failed() {
        run_prop(
            &mut run,
            "values",
            "one standard key (time, prep time, cook time, servings, tags, author, source, locale and their aliases) with a generated value of a documented form (minutes, HhMm, 1-3 number-unit pairs in the converter's time units up to 2^33 hours, servings numbers/strings/lists, tag strings/lists, the documented name/URL forms, locales) or an undocumented one, written as `>>` entry or YAML, under the empty, bundled, a renamed-units converter and a converter without a minutes unit (where number-unit pairs are written in length units and must be refused); oracle: exact rational minutes, documented reading tables, and `warning <=> accessor returns None`; distinct = distinct (source, converter)",
            || (spec(), any::<u8>(), any::<bool>(), 0u8..5).prop_map(|(spec, key_variant, old_style, conv)| Case { spec, key_variant, old_style, conv }),
            tier.pick(120_000, 6_000_000),
            |c: &Case, st| {
                st.sample(|| json!({"case": format!("{c:?}")}));
                oracle(c, st)
            },
        );
    }
    run.finish()
}

pub fn replay(_p: &str, j: &serde_json::Value) -> Verdict {
    oracle(&case_from(j)?, &mut Stats::default())
}
