//! Comparable image of a recipe: built (a) from the model by the reference resolver and (b) from
//! the parser's output through its public API.

use cooklang::quantity::{Number, ScalableValue, Value};
use cooklang::{Content, IngredientReferenceTarget, Item, ScalableRecipe};

use crate::gen_recipe::same_name;
use crate::model::*;

#[derive(Debug, Clone, PartialEq)]
pub enum INum {
    Regular(u64),
    Fraction { whole: u32, num: u32, den: u32 },
}

#[derive(Debug, Clone, PartialEq)]
pub enum IVal {
    Num(INum),
    Range(INum, INum),
    Text(String),
}

#[derive(Debug, Clone, PartialEq)]
pub struct IQty {
    pub linear: bool,
    pub value: IVal,
    pub unit: Option<String>,
}

#[derive(Debug, Clone, PartialEq)]
pub enum IRel {
    Def { referenced_from: Vec<usize>, in_step: bool },
    Ref { to: usize, target: &'static str },
}

#[derive(Debug, Clone, PartialEq)]
pub struct IComp {
    pub name: String,
    pub alias: Option<String>,
    pub note: Option<String>,
    pub qty: Option<IQty>,
    pub mods: u16,
    pub rel: IRel,
}

#[derive(Debug, Clone, PartialEq)]
pub struct ITimer {
    pub name: Option<String>,
    pub qty: Option<IQty>,
}

#[derive(Debug, Clone, PartialEq)]
pub enum IItem {
    Text(String),
    Ingredient(usize),
    Cookware(usize),
    Timer(usize),
    Inline(usize),
}

#[derive(Debug, Clone, PartialEq)]
pub enum IContent {
    Step { number: u32, items: Vec<IItem> },
    Text(String),
}

#[derive(Debug, Clone, PartialEq)]
pub struct ISection {
    pub name: Option<String>,
    pub content: Vec<IContent>,
}

#[derive(Debug, Clone, PartialEq)]
pub struct IRecipe {
    pub metadata: Vec<(serde_yaml::Value, serde_yaml::Value)>,
    pub servings: Option<Vec<u32>>,
    pub sections: Vec<ISection>,
    pub ingredients: Vec<IComp>,
    pub cookware: Vec<IComp>,
    pub timers: Vec<ITimer>,
    pub inline: Vec<(u64, String)>,
}

// ---------------------------------------------------------------------------
// normalisation of step text (spacing / wrapping / comments only change blanks)

pub fn collapse_ws(s: &str) -> String {
    let mut out = String::with_capacity(s.len());
    let mut prev_ws = false;
    for c in s.chars() {
        if c == ' ' || c == '\t' {
            if !prev_ws {
                out.push(' ');
            }
            prev_ws = true;
        } else {
            out.push(c);
            prev_ws = false;
        }
    }
    out
}

/// merge adjacent text items, collapse blanks, trim the ends of the step, drop empty text items
pub fn normalize_items(items: Vec<IItem>) -> Vec<IItem> {
    let mut merged: Vec<IItem> = vec![];
    for it in items {
        match (merged.last_mut(), it) {
            (Some(IItem::Text(a)), IItem::Text(b)) => a.push_str(&b),
            (_, it) => merged.push(it),
        }
    }
    for it in merged.iter_mut() {
        if let IItem::Text(t) = it {
            *t = collapse_ws(t);
        }
    }
    if let Some(IItem::Text(t)) = merged.first_mut() {
        *t = t.trim_start_matches(' ').to_string();
    }
    if let Some(IItem::Text(t)) = merged.last_mut() {
        *t = t.trim_end_matches(' ').to_string();
    }
    merged.retain(|it| !matches!(it, IItem::Text(t) if t.is_empty()));
    merged
}

// ---------------------------------------------------------------------------
// actual -> image

fn inum(n: &Number) -> Result<INum, String> {
    Ok(match n {
        Number::Regular(v) => INum::Regular(v.to_bits()),
        Number::Fraction { whole, num, den, err } => {
            if *err != 0.0 {
                return Err(format!("parsed fraction carries an error term {err}"));
            }
            INum::Fraction { whole: *whole, num: *num, den: *den }
        }
    })
}

fn ival(v: &Value) -> Result<IVal, String> {
    Ok(match v {
        Value::Number(n) => IVal::Num(inum(n)?),
        Value::Range { start, end } => IVal::Range(inum(start)?, inum(end)?),
        Value::Text(t) => IVal::Text(t.clone()),
    })
}

fn sval(v: &ScalableValue) -> Result<(bool, IVal), String> {
    Ok(match v {
        ScalableValue::Linear(v) => (true, ival(v)?),
        ScalableValue::Fixed(v) => (false, ival(v)?),
    })
}

pub fn actual_image(r: &ScalableRecipe) -> Result<IRecipe, String> {
    let mut ingredients = vec![];
    for i in &r.ingredients {
        let qty = match &i.quantity {
            Some(q) => {
                let (linear, value) = sval(q.value())?;
                Some(IQty { linear, value, unit: q.unit().map(|s| s.to_string()) })
            }
            None => None,
        };
        let rel = match i.relation.references_to() {
            Some((to, t)) => IRel::Ref {
                to,
                target: match t {
                    IngredientReferenceTarget::Ingredient => "ingredient",
                    IngredientReferenceTarget::Step => "step",
                    IngredientReferenceTarget::Section => "section",
                },
            },
            None => IRel::Def {
                referenced_from: i.relation.referenced_from().to_vec(),
                in_step: i.relation.is_defined_in_step().unwrap_or(true),
            },
        };
        if i.reference.is_some() {
            return Err(format!("ingredient {:?} unexpectedly parsed as a recipe path reference", i.name));
        }
        ingredients.push(IComp {
            name: i.name.clone(),
            alias: i.alias.clone(),
            note: i.note.clone(),
            qty,
            mods: i.modifiers().bits(),
            rel,
        });
    }
    let mut cookware = vec![];
    for c in &r.cookware {
        let qty = match &c.quantity {
            Some(v) => {
                let (linear, value) = sval(v)?;
                Some(IQty { linear, value, unit: None })
            }
            None => None,
        };
        let rel = match c.relation.references_to() {
            Some(to) => IRel::Ref { to, target: "cookware" },
            None => IRel::Def {
                referenced_from: c.relation.referenced_from().to_vec(),
                in_step: c.relation.is_defined_in_step().unwrap_or(true),
            },
        };
        cookware.push(IComp { name: c.name.clone(), alias: c.alias.clone(), note: c.note.clone(), qty, mods: c.modifiers().bits(), rel });
    }
    let mut timers = vec![];
    for t in &r.timers {
        let qty = match &t.quantity {
            Some(q) => {
                let (linear, value) = sval(q.value())?;
                Some(IQty { linear, value, unit: q.unit().map(|s| s.to_string()) })
            }
            None => None,
        };
        timers.push(ITimer { name: t.name.clone(), qty });
    }
    let mut inline = vec![];
    for q in &r.inline_quantities {
        let v = match q.value() {
            Value::Number(Number::Regular(v)) => v.to_bits(),
            other => return Err(format!("inline quantity value {other:?} is not a plain number")),
        };
        inline.push((v, q.unit().unwrap_or("").to_string()));
    }
    let mut sections = vec![];
    for s in &r.sections {
        let mut content = vec![];
        for c in &s.content {
            content.push(match c {
                Content::Text(t) => IContent::Text(collapse_ws(t).trim().to_string()),
                Content::Step(step) => {
                    let items = step
                        .items
                        .iter()
                        .map(|it| match it {
                            Item::Text { value } => IItem::Text(value.clone()),
                            Item::Ingredient { index } => IItem::Ingredient(*index),
                            Item::Cookware { index } => IItem::Cookware(*index),
                            Item::Timer { index } => IItem::Timer(*index),
                            Item::InlineQuantity { index } => IItem::Inline(*index),
                        })
                        .collect();
                    IContent::Step { number: step.number, items: normalize_items(items) }
                }
            });
        }
        sections.push(ISection { name: s.name.clone(), content });
    }
    Ok(IRecipe {
        metadata: r.metadata.map.iter().map(|(k, v)| (k.clone(), v.clone())).collect(),
        servings: r.servings().map(|s| s.to_vec()),
        sections,
        ingredients,
        cookware,
        timers,
        inline,
    })
}

// ---------------------------------------------------------------------------
// model -> expected image (reference resolver)

fn num_m(n: &NumM) -> INum {
    match n {
        NumM::Int(i) => INum::Regular((*i as f64).to_bits()),
        NumM::Dec(s) => INum::Regular(s.parse::<f64>().expect("decimal literal").to_bits()),
        NumM::Frac(a, b) => INum::Fraction { whole: 0, num: *a, den: *b },
        NumM::Mixed(w, a, b) => INum::Fraction { whole: *w, num: *a, den: *b },
    }
}

fn val_m(v: &ValM, ranges: bool) -> IVal {
    match v {
        ValM::Num(n) => IVal::Num(num_m(n)),
        ValM::Range(a, b) => {
            assert!(ranges);
            IVal::Range(num_m(a), num_m(b))
        }
        ValM::Text(t) => IVal::Text(t.clone()),
    }
}

pub struct ExpectOpts {
    /// INLINE_QUANTITIES on
    pub inline: bool,
}

fn expected_servings(v: &serde_yaml::Value) -> Option<Vec<u32>> {
    // only the valid forms the generator emits: int, "a|b|c" string, list of ints
    if let Some(n) = v.as_u64() {
        return Some(vec![n as u32]);
    }
    if let Some(s) = v.as_str() {
        return s.split('|').map(|p| p.trim().parse::<u32>().ok()).collect();
    }
    if let Some(seq) = v.as_sequence() {
        return seq.iter().map(|x| x.as_u64().map(|n| n as u32)).collect();
    }
    None
}

pub fn expected_image(m: &RecipeM, opts: &ExpectOpts) -> IRecipe {
    let ext = m.level == Level::Ext;
    let mut metadata: Vec<(serde_yaml::Value, serde_yaml::Value)> = vec![];
    let mut servings = None;
    if let Some(front) = &m.front {
        for (k, v) in front {
            let y = v.to_yaml();
            if k == "servings" {
                servings = expected_servings(&y);
            }
            metadata.push((serde_yaml::Value::String(k.clone()), y));
        }
    }
    let mut sections: Vec<ISection> = vec![];
    let mut cur = ISection { name: None, content: vec![] };
    let mut step_no = 1u32;
    let mut ingredients: Vec<IComp> = vec![];
    let mut cookware: Vec<IComp> = vec![];
    let mut timers: Vec<ITimer> = vec![];
    let mut inline: Vec<(u64, String)> = vec![];
    let mut mode = ModeM::All;
    let mut dup_ref = false;

    let qty_img = |q: &QtyM, ingredient: bool| -> IQty {
        let value = val_m(&q.value, ext);
        let linear = ingredient && !q.value.is_text() && !q.lock;
        IQty { linear, value, unit: q.unit.clone() }
    };

    for b in &m.blocks {
        match b {
            BlockM::Meta(k, v) => {
                if k == "servings" {
                    servings = expected_servings(&serde_yaml::Value::String(v.clone()));
                }
                metadata.push((serde_yaml::Value::String(k.clone()), serde_yaml::Value::String(v.clone())));
            }
            BlockM::Mode(mm) => match mm {
                ModeM::DupNew => dup_ref = false,
                ModeM::DupRef => dup_ref = true,
                other => mode = *other,
            },
            BlockM::Section(name) => {
                if cur.name.is_some() || !cur.content.is_empty() {
                    sections.push(cur);
                }
                cur = ISection { name: name.clone(), content: vec![] };
                step_no = 1;
            }
            BlockM::Text(lines) => {
                cur.content.push(IContent::Text(lines.join(" ")));
            }
            BlockM::Step(toks) => {
                let mut items: Vec<IItem> = vec![];
                let mut text = String::new();
                macro_rules! flush {
                    () => {
                        if !text.is_empty() {
                            items.push(IItem::Text(std::mem::take(&mut text)));
                        }
                    };
                }
                for st in toks {
                    if st.space_before {
                        text.push(' ');
                    }
                    match &st.tok {
                        TokM::Word(w) => text.push_str(w),
                        TokM::Punct(p) => text.push_str(p),
                        TokM::Escaped(c) => text.push(*c),
                        TokM::Num(n) => text.push_str(n),
                        TokM::Inline { number, unit, glued } => {
                            if opts.inline && mode != ModeM::Text {
                                flush!();
                                items.push(IItem::Inline(inline.len()));
                                inline.push((number.parse::<f64>().unwrap().to_bits(), unit.clone()));
                            } else {
                                text.push_str(number);
                                if !glued {
                                    text.push(' ');
                                }
                                text.push_str(unit);
                            }
                        }
                        TokM::Timer(t) => {
                            flush!();
                            items.push(IItem::Timer(timers.len()));
                            timers.push(ITimer { name: t.name.clone(), qty: t.qty.as_ref().map(|q| qty_img(q, false)) });
                        }
                        TokM::Comp(c) => {
                            flush!();
                            let is_igr = c.kind == Kind::Ingredient;
                            let table: &mut Vec<IComp> = if is_igr { &mut ingredients } else { &mut cookware };
                            let idx = table.len();
                            let mut mods = c.mods;
                            let in_step = mode != ModeM::Components;
                            let mut rel = IRel::Def { referenced_from: vec![], in_step };
                            if let Some(i) = c.inter {
                                // step targets are indices into the section content, counting only steps
                                let step_positions: Vec<usize> = cur
                                    .content
                                    .iter()
                                    .enumerate()
                                    .filter_map(|(i, c)| matches!(c, IContent::Step { .. }).then_some(i))
                                    .collect();
                                rel = match i {
                                    InterM::StepNumber(n) => IRel::Ref { to: step_positions[n as usize - 1], target: "step" },
                                    InterM::StepBack(n) => IRel::Ref { to: step_positions[step_positions.len() - n as usize], target: "step" },
                                    InterM::SectionNumber(n) => IRel::Ref { to: n as usize - 1, target: "section" },
                                    InterM::SectionBack(n) => IRel::Ref { to: sections.len() - n as usize, target: "section" },
                                };
                            } else if mods & M_NEW == 0 {
                                let last_same = table.iter().rposition(|o| o.mods & M_REF == 0 && same_name(&o.name, &c.name));
                                let as_ref = ext && (mods & M_REF != 0 || mode == ModeM::Steps || (dup_ref && last_same.is_some()));
                                if as_ref {
                                    let to = last_same.expect("generator guarantees a definition for every reference");
                                    let inherit_mask = M_HIDDEN | M_OPT | if is_igr { M_RECIPE } else { 0 };
                                    mods |= (table[to].mods & inherit_mask) | M_REF;
                                    rel = IRel::Ref { to, target: if is_igr { "ingredient" } else { "cookware" } };
                                    if let IRel::Def { referenced_from, .. } = &mut table[to].rel {
                                        referenced_from.push(idx);
                                    }
                                }
                            }
                            let comp = IComp {
                                name: c.name.clone(),
                                alias: c.alias.clone(),
                                note: c.note.clone(),
                                qty: c.qty.as_ref().map(|q| qty_img(q, is_igr)),
                                mods,
                                rel,
                            };
                            table.push(comp);
                            items.push(if is_igr { IItem::Ingredient(idx) } else { IItem::Cookware(idx) });
                        }
                    }
                }
                flush!();
                match mode {
                    ModeM::Components => {} // components registered, step not part of the recipe
                    ModeM::Text => {
                        let t: String = items
                            .iter()
                            .map(|i| match i {
                                IItem::Text(t) => t.clone(),
                                _ => unreachable!("no components in text mode"),
                            })
                            .collect();
                        cur.content.push(IContent::Text(collapse_ws(&t).trim().to_string()));
                    }
                    _ => {
                        let items = normalize_items(items);
                        if !items.is_empty() {
                            cur.content.push(IContent::Step { number: step_no, items });
                            step_no += 1;
                        }
                    }
                }
            }
        }
    }
    if cur.name.is_some() || !cur.content.is_empty() {
        sections.push(cur);
    }
    IRecipe { metadata, servings, sections, ingredients, cookware, timers, inline }
}

/// First difference between two images, human readable.
pub fn diff(expected: &IRecipe, actual: &IRecipe) -> Option<(String, String)> {
    macro_rules! cmp {
        ($sig:expr, $what:expr, $e:expr, $a:expr) => {
            if $e != $a {
                return Some(($sig.to_string(), format!("{}: expected {:?}, parsed {:?}", $what, $e, $a)));
            }
        };
    }
    cmp!("metadata", "metadata entries", expected.metadata, actual.metadata);
    cmp!("servings", "servings", expected.servings, actual.servings);
    cmp!("section-count", "number of sections", expected.sections.len(), actual.sections.len());
    for (i, (e, a)) in expected.sections.iter().zip(&actual.sections).enumerate() {
        cmp!("section-name", format!("name of section {i}"), e.name, a.name);
        cmp!("content-count", format!("number of blocks in section {i}"), e.content.len(), a.content.len());
        for (j, (ec, ac)) in e.content.iter().zip(&a.content).enumerate() {
            match (ec, ac) {
                (IContent::Step { number: en, items: ei }, IContent::Step { number: an, items: ai }) => {
                    cmp!("step-number", format!("number of step at section {i} block {j}"), en, an);
                    cmp!("step-items", format!("items of step at section {i} block {j}"), ei, ai);
                }
                _ => cmp!("content", format!("section {i} block {j}"), ec, ac),
            }
        }
    }
    cmp!("ingredient-count", "number of ingredients", expected.ingredients.len(), actual.ingredients.len());
    for (i, (e, a)) in expected.ingredients.iter().zip(&actual.ingredients).enumerate() {
        cmp!("ingredient-name", format!("ingredient {i} name"), e.name, a.name);
        cmp!("ingredient-alias", format!("ingredient {i} ({}) alias", e.name), e.alias, a.alias);
        cmp!("ingredient-note", format!("ingredient {i} ({}) note", e.name), e.note, a.note);
        cmp!("ingredient-quantity", format!("ingredient {i} ({}) quantity", e.name), e.qty, a.qty);
        cmp!("ingredient-modifiers", format!("ingredient {i} ({}) modifier bits", e.name), e.mods, a.mods);
        cmp!("ingredient-relation", format!("ingredient {i} ({}) relation", e.name), e.rel, a.rel);
    }
    cmp!("cookware-count", "number of cookware items", expected.cookware.len(), actual.cookware.len());
    for (i, (e, a)) in expected.cookware.iter().zip(&actual.cookware).enumerate() {
        cmp!("cookware", format!("cookware {i}"), e, a);
    }
    cmp!("timers", "timers", expected.timers, actual.timers);
    cmp!("inline-quantities", "inline quantities", expected.inline, actual.inline);
    None
}
