//! C19 — the FFI view mirrors the core recipe and combines amounts faithfully.

use std::collections::BTreeMap;

use cooklang::quantity::Value as CoreValue;
use cooklang::{Content, Item as CoreItem};
use cooklang_bindings::model::{Amount, Block, Component, GroupedQuantityKey, Ingredient as FIngredient, Item as FItem, QuantityType, Value as FValue};
use cooklang_bindings::{combine_ingredients, combine_ingredients_selected, deref_component, deref_cookware, deref_ingredient, deref_timer, parse_recipe};
use proptest::prelude::*;
use serde::{Deserialize, Serialize};
use serde_json::json;

use crate::c01::CANONICAL;
use crate::common::*;
use crate::gen_recipe::*;
use crate::print::*;
use crate::{vbail, vensure};

#[derive(Debug, Clone, Serialize, Deserialize)]
pub struct Case {
    pub raws: Vec<RawRecipe>,
    pub factor_bits: u64,
    /// selection / permutation choices for the combine part
    pub picks: Vec<u16>,
    /// hand-made ingredients (built through the verification hook): (name, kind, a, b, unit)
    #[serde(default)]
    pub extra: Vec<(u8, u8, u16, u16, u8)>,
}

fn fvalue(v: &CoreValue) -> FValue {
    match v {
        CoreValue::Number(n) => FValue::Number { value: n.value() },
        CoreValue::Range { start, end } => FValue::Range { start: start.value(), end: end.value() },
        CoreValue::Text(t) => FValue::Text { value: t.clone() },
    }
}

fn amount_dbg(v: &CoreValue, unit: Option<&str>) -> String {
    // `Amount` has crate-private fields: the expected value is built with the verification hook
    // and both sides are rendered with the same Debug impl
    format!("{:?}", Amount::verif_new(fvalue(v), unit.map(String::from)))
}

fn check_mirror(src: &str, factor: f64, st: &mut Stats) -> Result<Option<(Vec<FIngredient>, Vec<Option<(CoreValue, Option<String>)>>)>, Violation> {
    let res = CANONICAL.parse(src);
    if !res.is_valid() {
        st.exclude("not accepted by the canonical parser (C01's business)");
        return Ok(None);
    }
    let core = res.into_output().unwrap().scale(factor, CANONICAL.converter());
    let ffi = match guard(|| parse_recipe(src.to_string(), factor)) {
        Ok(r) => r,
        Err(p) => vbail!("c19.panic.parse_recipe", "parse_recipe panicked on an input the canonical parser accepts: {p}; source {src:?}"),
    };
    // component tables
    vensure!(ffi.ingredients.len() == core.ingredients.len() && ffi.cookware.len() == core.cookware.len() && ffi.timers.len() == core.timers.len(),
        "c19.table-length", "component tables {}/{}/{} vs core {}/{}/{}; source {src:?}", ffi.ingredients.len(), ffi.cookware.len(), ffi.timers.len(), core.ingredients.len(), core.cookware.len(), core.timers.len());
    let mut core_q = vec![];
    for (i, (f, c)) in ffi.ingredients.iter().zip(&core.ingredients).enumerate() {
        vensure!(f.name == c.name && f.descriptor == c.note, "c19.ingredient", "ingredient {i}: name/note {:?}/{:?} vs core {:?}/{:?}; source {src:?}", f.name, f.descriptor, c.name, c.note);
        let exp = c.quantity.as_ref().map(|q| amount_dbg(q.value(), q.unit()));
        let got = f.amount.as_ref().map(|a| format!("{a:?}"));
        vensure!(exp == got, "c19.ingredient-amount", "ingredient {i} ({}): amount {got:?}, core has {exp:?}; source {src:?}", c.name);
        core_q.push(c.quantity.as_ref().map(|q| (q.value().clone(), q.unit().map(String::from))));
    }
    for (i, (f, c)) in ffi.cookware.iter().zip(&core.cookware).enumerate() {
        let exp = c.quantity.as_ref().map(|v| amount_dbg(v, None));
        let got = f.amount.as_ref().map(|a| format!("{a:?}"));
        vensure!(f.name == c.name && exp == got, "c19.cookware", "cookware {i}: {:?} {got:?} vs core {:?} {exp:?}; source {src:?}", f.name, c.name);
    }
    for (i, (f, c)) in ffi.timers.iter().zip(&core.timers).enumerate() {
        let exp = c.quantity.as_ref().map(|q| amount_dbg(q.value(), q.unit()));
        let got = f.amount.as_ref().map(|a| format!("{a:?}"));
        let name_ok = f.name.clone().unwrap_or_default() == c.name.clone().unwrap_or_default();
        vensure!(name_ok && exp == got, "c19.timer", "timer {i}: {:?} {got:?} vs core {:?} {exp:?}; source {src:?}", f.name, c.name);
    }
    // sections, blocks, items
    vensure!(ffi.sections.len() == core.sections.len(), "c19.section-count", "{} sections vs core {}; source {src:?}", ffi.sections.len(), core.sections.len());
    for (si, (fs, cs)) in ffi.sections.iter().zip(&core.sections).enumerate() {
        vensure!(fs.title == cs.name, "c19.section-title", "section {si} title {:?} vs {:?}; source {src:?}", fs.title, cs.name);
        vensure!(fs.blocks.len() == cs.content.len(), "c19.block-count", "section {si}: {} blocks vs {}; source {src:?}", fs.blocks.len(), cs.content.len());
        let (mut si_refs, mut sc_refs, mut st_refs) = (vec![], vec![], vec![]);
        for (bi, (fb, cb)) in fs.blocks.iter().zip(&cs.content).enumerate() {
            match (fb, cb) {
                (Block::NoteBlock(n), Content::Text(t)) => vensure!(n.text == *t, "c19.note-text", "section {si} block {bi}: note {:?} vs {t:?}", n.text),
                (Block::StepBlock(fstep), Content::Step(cstep)) => {
                    vensure!(fstep.items.len() == cstep.items.len(), "c19.item-count", "section {si} block {bi}: {} items vs {}; source {src:?}", fstep.items.len(), cstep.items.len());
                    let (mut ir, mut cr, mut tr) = (vec![], vec![], vec![]);
                    for (ii, (fi, ci)) in fstep.items.iter().zip(&cstep.items).enumerate() {
                        let ok = match (fi, ci) {
                            (FItem::Text { value }, CoreItem::Text { value: v2 }) => value == v2,
                            (FItem::IngredientRef { index }, CoreItem::Ingredient { index: i2 }) => {
                                ir.push(*index);
                                *index as usize == *i2
                            }
                            (FItem::CookwareRef { index }, CoreItem::Cookware { index: i2 }) => {
                                cr.push(*index);
                                *index as usize == *i2
                            }
                            (FItem::TimerRef { index }, CoreItem::Timer { index: i2 }) => {
                                tr.push(*index);
                                *index as usize == *i2
                            }
                            (FItem::Text { value }, CoreItem::InlineQuantity { .. }) => value.is_empty(),
                            _ => false,
                        };
                        vensure!(ok, "c19.item", "section {si} block {bi} item {ii}: {fi:?} vs core {ci:?}; source {src:?}");
                        // every item reference resolves to the component it denotes
                        let d = match guard(|| deref_component(&ffi, fi.clone())) {
                            Ok(d) => d,
                            Err(p) => vbail!("c19.panic.deref", "deref_component({fi:?}) panicked: {p}; source {src:?}"),
                        };
                        let ok = match (fi, &d) {
                            (FItem::Text { value }, Component::TextComponent(t)) => value == t,
                            (FItem::IngredientRef { index }, Component::IngredientComponent(x)) => *x == ffi.ingredients[*index as usize] && deref_ingredient(&ffi, *index) == *x,
                            (FItem::CookwareRef { index }, Component::CookwareComponent(x)) => *x == ffi.cookware[*index as usize] && deref_cookware(&ffi, *index) == *x,
                            (FItem::TimerRef { index }, Component::TimerComponent(x)) => *x == ffi.timers[*index as usize] && deref_timer(&ffi, *index) == *x,
                            _ => false,
                        };
                        vensure!(ok, "c19.deref", "section {si} block {bi} item {ii}: {fi:?} dereferences to {d:?}; source {src:?}");
                    }
                    vensure!(
                        fstep.ingredient_refs == ir && fstep.cookware_refs == cr && fstep.timer_refs == tr,
                        "c19.step-refs",
                        "section {si} block {bi}: step ref lists {:?}/{:?}/{:?}, items give {ir:?}/{cr:?}/{tr:?}; source {src:?}",
                        fstep.ingredient_refs, fstep.cookware_refs, fstep.timer_refs
                    );
                    si_refs.extend(ir);
                    sc_refs.extend(cr);
                    st_refs.extend(tr);
                }
                _ => vbail!("c19.block-kind", "section {si} block {bi}: kinds differ ({fb:?} vs {cb:?}); source {src:?}"),
            }
        }
        vensure!(
            fs.ingredient_refs == si_refs && fs.cookware_refs == sc_refs && fs.timer_refs == st_refs,
            "c19.section-refs",
            "section {si}: ref lists {:?}/{:?}/{:?} are not the concatenation of its steps' lists {si_refs:?}/{sc_refs:?}/{st_refs:?}; source {src:?}",
            fs.ingredient_refs, fs.cookware_refs, fs.timer_refs
        );
    }
    // metadata: the string entries
    let exp_meta: BTreeMap<String, String> = core.metadata.map.iter().filter_map(|(k, v)| Some((k.as_str()?.to_string(), v.as_str()?.to_string()))).collect();
    let got_meta: BTreeMap<String, String> = ffi.metadata.iter().map(|(k, v)| (k.clone(), v.clone())).collect();
    vensure!(exp_meta == got_meta, "c19.metadata", "metadata {got_meta:?} vs core string entries {exp_meta:?}; source {src:?}");
    // the metadata-only FFI entry point gives the same map
    match guard(|| cooklang_bindings::parse_metadata(src.to_string(), factor)) {
        Ok(m) => {
            let only: BTreeMap<String, String> = m.into_iter().collect();
            vensure!(only == exp_meta, "c19.metadata", "parse_metadata() gives {only:?}, the core string entries are {exp_meta:?}; source {src:?}");
        }
        Err(p) => vbail!("c19.panic.parse_metadata", "the FFI parse_metadata panicked on an input the canonical parser accepts: {p}; source {src:?}"),
    }
    st.class_if(!core.cookware.is_empty(), "has-cookware");
    st.class_if(!core.timers.is_empty(), "has-timer");
    st.class_if(core.sections.len() > 1, "multi-section");
    Ok(Some((ffi.ingredients, core_q)))
}

#[derive(Debug, Default, Clone, PartialEq)]
struct Cell {
    number: f64,
    range: (f64, f64),
    texts: usize,
    count: usize,
}

fn model_combine(items: &[(String, Option<(CoreValue, Option<String>)>)]) -> BTreeMap<(String, String, &'static str), Cell> {
    let mut m: BTreeMap<(String, String, &'static str), Cell> = BTreeMap::new();
    for (name, q) in items {
        let (unit, kind, v) = match q {
            None => (String::new(), "empty", None),
            Some((v, u)) => (
                u.clone().unwrap_or_default(),
                match v {
                    CoreValue::Number(_) => "number",
                    CoreValue::Range { .. } => "range",
                    CoreValue::Text(_) => "text",
                },
                Some(v),
            ),
        };
        let c = m.entry((name.clone(), unit, kind)).or_default();
        c.count += 1;
        match v {
            Some(CoreValue::Number(n)) => c.number += n.value(),
            Some(CoreValue::Range { start, end }) => {
                c.range.0 += start.value();
                c.range.1 += end.value();
            }
            Some(CoreValue::Text(_)) => c.texts += 1,
            None => {}
        }
    }
    m
}

fn check_combined(list: &std::collections::HashMap<String, std::collections::HashMap<GroupedQuantityKey, FValue>>, items: &[(String, Option<(CoreValue, Option<String>)>)], what: &str) -> Verdict {
    let model = model_combine(items);
    let mut seen = 0;
    for (name, group) in list {
        for (key, val) in group {
            let kind = match key.unit_type {
                QuantityType::Number => "number",
                QuantityType::Range => "range",
                QuantityType::Text => "text",
                QuantityType::Empty => "empty",
            };
            let Some(cell) = model.get(&(name.clone(), key.name.clone(), kind)) else {
                vbail!("c19.combine-invented", "{what}: entry {name:?} / {key:?} = {val:?} has no input");
            };
            seen += 1;
            let ok = match val {
                FValue::Number { value } => kind == "number" && approx_eq(*value, cell.number, 1e-9, 1e-12),
                FValue::Range { start, end } => kind == "range" && approx_eq(*start, cell.range.0, 1e-9, 1e-12) && approx_eq(*end, cell.range.1, 1e-9, 1e-12),
                FValue::Text { .. } => kind == "text",
                FValue::Empty => kind == "empty",
            };
            vensure!(ok, "c19.combine-total", "{what}: {name:?} / {key:?} = {val:?}, the inputs sum to {cell:?}");
        }
    }
    vensure!(seen == model.len(), "c19.combine-lost", "{what}: {seen} entries for {} (name, unit, kind) classes of the inputs: {:?}", model.len(), model.keys().collect::<Vec<_>>());
    Ok(())
}

fn check(c: &Case, st: &mut Stats) -> Verdict {
    let factor = f64::from_bits(c.factor_bits);
    let mut all: Vec<FIngredient> = vec![];
    let mut all_q: Vec<(String, Option<(CoreValue, Option<String>)>)> = vec![];
    let mut srcs = vec![];
    for raw in &c.raws {
        let m = build(raw, false);
        let (src, _) = print_recipe(&m, &raw.tape);
        if let Some((igrs, qs)) = check_mirror(&src, factor, st)? {
            for (i, q) in igrs.iter().zip(qs) {
                all_q.push((i.name.clone(), q));
            }
            all.extend(igrs);
            // the same source again with other factors: every call mirrors its own scaling
            for f2 in [factor * 2.0, factor] {
                check_mirror(&src, f2, &mut Stats::default())?;
            }
        }
        srcs.push(src);
    }
    for (n, kind, a, b, u) in &c.extra {
        let name = ["salt", "flour", "Öl"][*n as usize % 3].to_string();
        let unit = [None, Some("g"), Some("cans"), Some("l")][*u as usize % 4].map(String::from);
        let (av, bv) = (*a as f64 / 8.0, *a as f64 / 8.0 + *b as f64 / 8.0);
        let q: Option<(CoreValue, Option<String>)> = match kind % 4 {
            0 => Some((CoreValue::Number(cooklang::quantity::Number::Regular(av)), unit.clone())),
            1 => Some((CoreValue::Range { start: cooklang::quantity::Number::Regular(av), end: cooklang::quantity::Number::Regular(bv) }, unit.clone())),
            2 => Some((CoreValue::Text(["some", "a pinch"][*a as usize % 2].to_string()), unit.clone())),
            _ => None,
        };
        let amount = q.as_ref().map(|(v, u)| Amount::verif_new(fvalue(v), u.clone()));
        all.push(FIngredient { name: name.clone(), amount, descriptor: None });
        all_q.push((name, q));
        st.class("hand-made ingredient");
    }
    st.sample(|| json!({"factor": factor, "sources": srcs}));
    if all.is_empty() {
        return Ok(());
    }
    // an eighth of the cases: a long list (the same ingredients several times over, 65-200 entries)
    if c.picks.first().is_some_and(|p| p % 8 == 0) {
        let target = 65 + (c.picks[0] as usize / 8) % 136;
        let n0 = all.len();
        let mut k = 0;
        while all.len() < target {
            all.push(all[k % n0].clone());
            all_q.push(all_q[k % n0].clone());
            k += 1;
        }
        st.class("combine more than 64 ingredients");
    }
    st.nontrivial(&(format!("{srcs:?}"), c.factor_bits, &c.picks));
    // combine: every order, selections
    let combined = match guard(|| combine_ingredients(&all)) {
        Ok(l) => l,
        Err(p) => vbail!("c19.panic.combine", "combine_ingredients panicked: {p}; sources {srcs:?}"),
    };
    check_combined(&combined, &all_q, "combine_ingredients")?;
    // a permutation driven by the picks
    let mut idx: Vec<usize> = (0..all.len()).collect();
    for (k, p) in c.picks.iter().enumerate() {
        let a = k % idx.len();
        let b = (*p as usize * idx.len()) >> 16;
        idx.swap(a, b);
    }
    let perm: Vec<FIngredient> = idx.iter().map(|i| all[*i].clone()).collect();
    let perm_q: Vec<_> = idx.iter().map(|i| all_q[*i].clone()).collect();
    let combined_perm = combine_ingredients(&perm);
    check_combined(&combined_perm, &perm_q, "combine_ingredients (permuted)")?;
    // the set of (name, key) entries does not depend on the order
    let keys = |l: &std::collections::HashMap<String, std::collections::HashMap<GroupedQuantityKey, FValue>>| {
        let mut v: Vec<String> = l.iter().flat_map(|(n, g)| g.keys().map(move |k| format!("{n}|{k:?}"))).collect();
        v.sort();
        v
    };
    vensure!(keys(&combined) == keys(&combined_perm), "c19.combine-order-dependent", "the combined entries depend on the input order: {:?} vs {:?}; sources {srcs:?}", keys(&combined), keys(&combined_perm));
    // selection (with possible repeats) == combining that sub-list
    let sel: Vec<u32> = c.picks.iter().map(|p| ((*p as usize * all.len()) >> 16) as u32).collect();
    let by_sel = match guard(|| combine_ingredients_selected(&all, &sel)) {
        Ok(l) => l,
        Err(p) => vbail!("c19.panic.combine", "combine_ingredients_selected panicked: {p}"),
    };
    let sub: Vec<FIngredient> = sel.iter().map(|i| all[*i as usize].clone()).collect();
    let sub_q: Vec<_> = sel.iter().map(|i| all_q[*i as usize].clone()).collect();
    check_combined(&by_sel, &sub_q, "combine_ingredients_selected")?;
    let by_sub = combine_ingredients(&sub);
    vensure!(keys(&by_sel) == keys(&by_sub), "c19.selection-differs", "combining the selection {sel:?} differs from combining that sub-list");
    check_combined(&by_sub, &sub_q, "combine_ingredients (sub-list)")?;
    // merging two combined lists == combining the concatenation
    if all.len() >= 2 {
        let cut = 1 + (c.picks.first().copied().unwrap_or(0) as usize * (all.len() - 1) >> 16);
        let mut left = combine_ingredients(&all[..cut]);
        let right = combine_ingredients(&all[cut..]);
        if let Err(p) = guard(|| cooklang_bindings::model::merge_ingredient_lists(&mut left, &right)) {
            vbail!("c19.panic.combine", "merge_ingredient_lists panicked: {p}");
        }
        check_combined(&left, &all_q, "merge_ingredient_lists(combine(a), combine(b))")?;
    }
    // a list merged with an equal list (the same recipe twice): every input counts once, so twice here
    if !all.is_empty() {
        let mut left = combine_ingredients(&all);
        let right = combine_ingredients(&all);
        if let Err(p) = guard(|| cooklang_bindings::model::merge_ingredient_lists(&mut left, &right)) {
            vbail!("c19.panic.combine", "merge_ingredient_lists panicked: {p}");
        }
        let twice: Vec<_> = all_q.iter().chain(all_q.iter()).cloned().collect();
        check_combined(&left, &twice, "merge_ingredient_lists(combine(a), combine(a))")?;
    }
    st.class_if(all.len() > 3, "combine >3 ingredients");
    st.class_if(model_combine(&all_q).values().any(|c| c.count > 1), "combine merges entries");
    Ok(())
}

pub fn run(tier: Tier) -> i32 {
    let mut run = Run::new("C19", tier);
    run.assume("the bindings crate is compiled as an rlib from /repo/bindings/src/lib.rs through a shadow manifest (the real crate types are cdylib/staticlib)");
    run.assume("Amount has crate-private fields: expected values are built with the hook constructor and compared through the type's own Debug rendering; a timer name None is equivalent to Some(\"\"); text concatenation order in combined text entries is not constrained");
    run.replay_regressions(&|p, j| replay(p, j));
    if !run.failed() {
        run_prop(
            &mut run,
            "mirror-and-combine",
            "(needs the Amount constructor hook) 1-3 generated Core recipes (names colliding across recipes, all value kinds, units, notes, cookware, timers, sections, text paragraphs, `>>` / front-matter metadata) and a scaling factor: parse_recipe(src, f) is compared item by item with canonical().parse(src).scale(f); deref_* of every item; section ref lists = concatenation of step lists; every source is parsed again with other factors (per-call independence); then the ingredient lists plus 0-5 hand-made ingredients (numbers, ranges, texts, no amount; same names/units so that entries merge) are concatenated, permuted and sub-selected and combine_ingredients / combine_ingredients_selected are compared with a per (name, unit, kind) model; non-trivial = at least one ingredient",
            || {
                (
                    proptest::collection::vec(raw_recipe(Some(false)), 1..=3),
                    prop_oneof![Just(1.0f64), (0.1f64..10.0), Just(2.0)],
                    proptest::collection::vec(any::<u16>(), 0..8),
                    proptest::collection::vec((0u8..3, 0u8..4, 0u16..400, 0u16..100, 0u8..4), 0..6),
                )
                    .prop_map(|(raws, f, picks, extra)| Case { raws, factor_bits: f.to_bits(), picks, extra })
            },
            tier.pick(20_000, 2_000_000),
            check,
        );
    }
    if !run.failed() {
        run_prop(
            &mut run,
            "mirror-any-accepted-input",
            "random line documents and token soups: whenever the canonical parser accepts the text, parse_recipe must mirror the core recipe (items incl. consecutive text items from stray markers, tables, refs, deref); non-trivial = accepted and has a component or two text items in a row",
            || prop_oneof![crate::soup::lines_strategy(), crate::soup::soup_strategy(30)],
            tier.pick(40_000, 4_000_000),
            |c: &crate::soup::InputCase, st| {
                let src = c.input();
                if let Some((igrs, _)) = check_mirror(&src, 1.0 + (c.ext % 3) as f64, st)? {
                    if !igrs.is_empty() || src.contains('@') || src.contains('#') {
                        st.nontrivial(&src);
                    }
                }
                Ok(())
            },
        );
    }
    run.finish()
}

pub fn replay(part: &str, j: &serde_json::Value) -> Verdict {
    if part == "mirror-any-accepted-input" {
        let c: crate::soup::InputCase = case_from(j)?;
        return check_mirror(&c.input(), 1.0 + (c.ext % 3) as f64, &mut Stats::default()).map(|_| ());
    }
    check(&case_from(j)?, &mut Stats::default())
}
