//! C04 — driver (oracle in inv.rs)

use crate::common::*;
use crate::inputs::*;
use crate::inv;

fn oracle(input: &str, ext: usize, conv: u8, st: &mut Stats) -> Verdict {
    inv::c04_spans(input, ext, conv, st)
}

/// executions of the libFuzzer leg (thorough tier), over all jobs
pub const FUZZ_RUNS: u64 = 8_000_000;
pub const NONTRIVIAL: &str = "non-trivial = a multi-byte character within 2 bytes of a marker, or a diagnostic was produced";

pub fn run(tier: Tier) -> i32 {
    let mut run = Run::new("C04", tier);
    run.assume("component parts are required to lie inside the component span only when the event stream has no error event (error recovery uses placeholder spans)");
    run.replay_regressions(&|_part, j| replay_input(j, &oracle));
    let b = budget(tier, 1.0);
    if !run.failed() {
        run_inputs(&mut run, &b, NONTRIVIAL, &oracle);
    }
    crate::recipe_inputs::run_recipe_inputs(&mut run, &b, NONTRIVIAL, &oracle);
    crate::big::run_big_part(&mut run, tier, "every span after or inside a very long token must still be exact");
    if tier == Tier::Thorough && !run.failed() {
        crate::fuzzleg::run_fuzz_leg(&mut run, FUZZ_RUNS, &oracle);
    }
    run.finish()
}

pub fn replay(part: &str, j: &serde_json::Value) -> Verdict {
    if part == "large-inputs" {
        return crate::big::replay(inv::c04_spans, j);
    }
    replay_input(j, &oracle)
}
