//! C05 — driver (oracle in inv.rs)

use crate::common::*;
use crate::inputs::*;
use crate::inv;

fn oracle(input: &str, ext: usize, _conv: u8, st: &mut Stats) -> Verdict {
    inv::c05_coverage(input, ext, st)
}

/// executions of the libFuzzer leg (thorough tier), over all jobs
pub const FUZZ_RUNS: u64 = 16_000_000;
pub const NONTRIVIAL: &str = "non-trivial = no error event and at least one letter/digit outside comments";

pub fn run(tier: Tier) -> i32 {
    let mut run = Run::new("C05", tier);
    run.assume("comment extents are recomputed by an independent scanner that mirrors the documented delimiters (`--` to end of line, `[-` .. `-]` or end of input, backslash escapes the next character)");
    run.replay_regressions(&|_part, j| replay_input(j, &oracle));
    let b = budget(tier, 1.0);
    if !run.failed() {
        run_inputs(&mut run, &b, NONTRIVIAL, &oracle);
    }
    crate::recipe_inputs::run_recipe_inputs(&mut run, &b, NONTRIVIAL, &oracle);
    crate::big::run_big_part(&mut run, tier, "nothing after or inside a very long token may be dropped");
    if tier == Tier::Thorough && !run.failed() {
        crate::fuzzleg::run_fuzz_leg(&mut run, FUZZ_RUNS, &oracle);
    }
    run.finish()
}

pub fn replay(part: &str, j: &serde_json::Value) -> Verdict {
    if part == "large-inputs" {
        return crate::big::replay(|i, e, _c, st| inv::c05_coverage(i, e, st), j);
    }
    replay_input(j, &oracle)
}
