//! C10 — grouping and listing ingredients conserves quantities.

use std::collections::BTreeMap;

use cooklang::aisle;
use cooklang::ingredient_list::IngredientList;
use cooklang::quantity::{GroupedQuantity, Number, Quantity, ScaledQuantity, Value};
use cooklang::{IngredientReferenceTarget, Modifiers, ScaledRecipe};
use proptest::prelude::*;
use serde::{Deserialize, Serialize};
use serde_json::json;

use crate::c01::EXTENDED;
use crate::common::*;
use crate::gen_recipe::*;
use crate::pipeline::BUNDLED;
use crate::print::*;
use crate::{vbail, vensure};

/// totals per class (physical quantity / unknown unit / unitless) and the multiset of text values
#[derive(Debug, Default, Clone)]
pub struct Totals {
    pub sums: BTreeMap<String, (f64, f64)>,
    pub texts: Vec<String>,
    pub count: usize,
}

impl Totals {
    pub fn add(&mut self, q: &ScaledQuantity) {
        self.count += 1;
        let (class, ratio) = match q.unit() {
            None => ("(no unit)".to_string(), 1.0),
            Some(u) => match CONV.find_unit(u) {
                Some(unit) => (format!("{}", unit.physical_quantity), unit.ratio),
                None => (format!("unit:{u}"), 1.0),
            },
        };
        match q.value() {
            Value::Text(t) => self.texts.push(format!("{t}|{}", q.unit().unwrap_or(""))),
            Value::Number(n) => {
                let e = self.sums.entry(class).or_insert((0.0, 0.0));
                e.0 += n.value() * ratio;
                e.1 += n.value() * ratio;
            }
            Value::Range { start, end } => {
                let e = self.sums.entry(class).or_insert((0.0, 0.0));
                e.0 += start.value() * ratio;
                e.1 += end.value() * ratio;
            }
        }
    }
    pub fn of<'a>(it: impl Iterator<Item = &'a ScaledQuantity>) -> Totals {
        let mut t = Totals::default();
        for q in it {
            t.add(q);
        }
        t.texts.sort();
        t
    }
    pub fn merge(&mut self, o: &Totals) {
        for (k, v) in &o.sums {
            let e = self.sums.entry(k.clone()).or_insert((0.0, 0.0));
            e.0 += v.0;
            e.1 += v.1;
        }
        self.texts.extend(o.texts.iter().cloned());
        self.texts.sort();
    }
    pub fn same(&self, o: &Totals) -> Result<(), String> {
        let mut a = self.texts.clone();
        let mut b = o.texts.clone();
        a.sort();
        b.sort();
        if a != b {
            return Err(format!("text values {a:?} vs {b:?}"));
        }
        let keys: std::collections::BTreeSet<&String> = self.sums.keys().chain(o.sums.keys()).collect();
        for k in keys {
            let x = self.sums.get(k).copied().unwrap_or((0.0, 0.0));
            let y = o.sums.get(k).copied().unwrap_or((0.0, 0.0));
            // a class may be absent on one side only when its total is zero on the other
            if !(approx_eq(x.0, y.0, 1e-9, 1e-9) && approx_eq(x.1, y.1, 1e-9, 1e-9)) {
                return Err(format!("total of {k}: {x:?} vs {y:?}"));
            }
        }
        Ok(())
    }
}

// ---------------------------------------------------------------------------
// part 1: histories over GroupedQuantity

#[derive(Debug, Clone, Serialize, Deserialize)]
pub struct QM {
    /// 0 number, 1 range, 2 text
    pub kind: u8,
    pub a: u32,
    pub b: u32,
    pub unit: u8,
}

/// the bundled units plus two aliases that differ only in case (`T` tablespoon, `t` teaspoon), as many
/// cookbooks write them
static CONV: std::sync::LazyLock<cooklang::Converter> = std::sync::LazyLock::new(|| {
    let layer: cooklang::convert::UnitsFile = toml::from_str("[extend.units]\ntbsp = { aliases = [\"T\"] }\ntsp = { aliases = [\"t\"] }\n").expect("layer");
    cooklang::convert::ConverterBuilder::new().with_bundled_units().and_then(|b| b.with_units_file(layer)).and_then(|b| b.finish()).expect("bundled units + aliases")
});

const Q_UNITS: [Option<&str>; 22] = [
    None, Some("g"), Some("kg"), Some("oz"), Some("lb"), Some("ml"), Some("l"), Some("cups"), Some("tsp"), Some("min"), Some("hours"), Some("cm"), Some("bag"), Some("cloves"), Some("grams"), Some("L"),
    // unknown units that are not all lower case, one of them differing from another only by case
    Some("EL"), Some("Pkg"), Some("Bag"), Some("Stück"),
    // known units whose keys differ only in case
    Some("T"), Some("t"),
];

impl QM {
    fn quantity(&self) -> ScaledQuantity {
        let unit = Q_UNITS[self.unit as usize % Q_UNITS.len()].map(String::from);
        let a = self.a as f64 / 8.0;
        let v = match self.kind % 3 {
            0 => Value::from(a),
            1 => Value::Range { start: Number::Regular(a), end: Number::Regular(a + self.b as f64 / 8.0) },
            _ => Value::Text(["some", "a pinch", "to taste"][self.a as usize % 3].to_string()),
        };
        Quantity::new(v, unit)
    }
}

#[derive(Debug, Clone, Serialize, Deserialize)]
pub enum Op {
    Add(QM),
    /// build another group from these quantities and merge it in
    MergeFrom(Vec<QM>),
    Fit,
}

fn check_group_api(g: &GroupedQuantity) -> Verdict {
    let n = g.iter().count();
    vensure!(g.len() == n, "c10.len-iter-disagree", "len() = {} but iter() yields {n}: {g:?}", g.len());
    vensure!(g.is_empty() == (n == 0), "c10.is-empty-wrong", "is_empty() = {} with {n} quantities", g.is_empty());
    let v = g.clone().into_vec();
    vensure!(v.len() == n, "c10.into-vec-len", "into_vec() has {} entries, iter() {n}", v.len());
    let a = Totals::of(g.iter());
    let b = Totals::of(v.iter());
    if let Err(e) = a.same(&b) {
        vbail!("c10.into-vec-differs", "into_vec() and iter() disagree: {e}");
    }
    Ok(())
}

fn check_try_add(a: &ScaledQuantity, b: &ScaledQuantity, ops: &Vec<Op>) -> Verdict {
    let both = Totals::of([a.clone(), b.clone()].iter());
    let addable = both.texts.is_empty() && both.sums.len() == 1;
    match guard(|| a.try_add(b, &*CONV)) {
        Err(p) => vbail!("c10.panic.add", "Quantity::try_add panicked: {p}; {a:?} + {b:?}; history {ops:?}"),
        Ok(Ok(sum)) => {
            vensure!(addable, "c10.try-add-accepted", "try_add({a:?}, {b:?}) gave {sum:?} although the two cannot be summed (text value or different classes of unit); history {ops:?}");
            vensure!(sum.unit() == a.unit(), "c10.try-add-unit", "try_add({a:?}, {b:?}) gave {sum:?}: the unit of the left operand is kept by contract; history {ops:?}");
            if let Err(e) = both.same(&Totals::of([sum.clone()].iter())) {
                vbail!("c10.try-add-total", "try_add({a:?}, {b:?}) gave {sum:?}: {e}; history {ops:?}");
            }
        }
        Ok(Err(e)) => {
            vensure!(!addable, "c10.try-add-refused", "try_add({a:?}, {b:?}) failed with {e} although both are numeric and of the same class of unit; history {ops:?}");
        }
    }
    Ok(())
}

fn check_history(ops: &Vec<Op>, st: &mut Stats) -> Verdict {
    let mut g = GroupedQuantity::empty();
    let mut model = Totals::default();
    let mut merges = 0;
    let mut prev: Option<ScaledQuantity> = None;
    for (i, op) in ops.iter().enumerate() {
        match op {
            Op::Add(q) => {
                let q = q.quantity();
                // the pairwise operation behind the group: adding to the previous quantity either fails
                // (text, different class of unit) or gives their sum in the unit of the left operand
                if let Some(prev) = &prev {
                    check_try_add(prev, &q, ops)?;
                }
                prev = Some(q.clone());
                model.add(&q);
                if let Err(p) = guard(|| g.add(&q, &*CONV)) {
                    vbail!("c10.panic.add", "GroupedQuantity::add panicked: {p}; history {ops:?}");
                }
            }
            Op::MergeFrom(qs) => {
                merges += 1;
                let mut other = GroupedQuantity::empty();
                for q in qs {
                    let q = q.quantity();
                    model.add(&q);
                    other.add(&q, &*CONV);
                }
                if let Err(p) = guard(|| g.merge(&other, &*CONV)) {
                    vbail!("c10.panic.merge", "GroupedQuantity::merge panicked: {p}; history {ops:?}");
                }
            }
            Op::Fit => {
                if let Err(p) = guard(|| g.fit(&*CONV)) {
                    vbail!("c10.panic.fit", "GroupedQuantity::fit panicked: {p}; history {ops:?}");
                }
            }
        }
        check_group_api(&g)?;
        let got = Totals::of(g.iter());
        if let Err(e) = model.same(&got) {
            vbail!("c10.group-total", "after step {i} of the history the grouped total differs from the sum of the inputs: {e}\n group {g:?}\n history {ops:?}");
        }
    }
    if ops.len() >= 3 {
        st.nontrivial(&format!("{ops:?}"));
    }
    st.class_if(merges > 0, "history-with-merge");
    st.class_if(ops.iter().any(|o| matches!(o, Op::Fit)), "history-with-fit");
    Ok(())
}

// ---------------------------------------------------------------------------
// parts 2-4: recipes, lists, aisles

#[derive(Debug, Clone, Serialize, Deserialize)]
pub struct RecipeCase {
    pub raws: Vec<RawRecipe>,
    pub factor_bits: Option<u64>,
    /// aisle layout choices
    pub aisle: Vec<u8>,
}

fn scaled(raw: &RawRecipe, factor: Option<f64>, st: &mut Stats) -> Result<Option<(String, ScaledRecipe)>, Violation> {
    let m = build(raw, false);
    let (src, _) = print_recipe(&m, &raw.tape);
    let res = EXTENDED.parse(&src);
    if !res.is_valid() {
        st.exclude("not a valid recipe (C01's business)");
        return Ok(None);
    }
    let r = res.into_output().unwrap();
    // "each quantity is counted under its definition": which definition that is comes from the source (the
    // model), not from what the parser made of it
    let expected = crate::image::expected_image(&m, &crate::image::ExpectOpts { inline: true });
    if expected.ingredients.len() == r.ingredients.len() {
        for (i, (e, a)) in expected.ingredients.iter().zip(&r.ingredients).enumerate() {
            let want = match &e.rel {
                crate::image::IRel::Ref { to, target } if *target == "ingredient" => Some(*to),
                _ => None,
            };
            let got = match a.relation.references_to() {
                Some((to, IngredientReferenceTarget::Ingredient)) => Some(to),
                _ => None,
            };
            vensure!(
                want == got,
                "c10.counted-under-wrong-definition",
                "ingredient {i} ({:?}) is written as {} but the parsed recipe has it as {}: its amount is grouped and listed elsewhere; source {src:?}",
                a.name,
                want.map_or("a definition of its own".to_string(), |t| format!("a reference to ingredient {t}")),
                got.map_or("a definition of its own".to_string(), |t| format!("a reference to ingredient {t}"))
            );
        }
    }
    Ok(Some((src, match factor {
        Some(f) => r.scale(f, &*CONV),
        None => r.default_scale(),
    })))
}

fn has_temperature(r: &ScaledRecipe) -> bool {
    r.ingredients.iter().any(|i| i.quantity.as_ref().and_then(|q| q.unit()).and_then(|u| CONV.find_unit(u)).is_some_and(|u| u.physical_quantity == cooklang::convert::PhysicalQuantity::Temperature))
}

fn check_recipe_grouping(src: &str, r: &ScaledRecipe, st: &mut Stats) -> Verdict {
    let groups = match guard(|| r.group_ingredients(&*CONV)) {
        Ok(g) => g,
        Err(p) => vbail!("c10.panic.group_ingredients", "group_ingredients panicked: {p}; source {src:?}"),
    };
    // one entry per definition, in recipe order
    let defs: Vec<usize> = r.ingredients.iter().enumerate().filter(|(_, i)| i.relation.references_to().is_none()).map(|(i, _)| i).collect();
    let got: Vec<usize> = groups.iter().map(|g| g.index).collect();
    vensure!(got == defs, "c10.group-entries", "group_ingredients lists indices {got:?}, the definitions are {defs:?}; source {src:?}");
    let mut any_ref = false;
    let mut grand = Totals::default();
    for g in &groups {
        check_group_api(&g.quantity)?;
        vensure!(std::ptr::eq(g.ingredient, &r.ingredients[g.index]), "c10.group-ingredient-ref", "entry {} does not point at its ingredient", g.index);
        // model: own quantity + every regular reference pointing at it (found by scanning)
        let mut model = Totals::default();
        for (j, i) in r.ingredients.iter().enumerate() {
            let mine = j == g.index || i.relation.references_to() == Some((g.index, IngredientReferenceTarget::Ingredient));
            if mine {
                if j != g.index {
                    any_ref = true;
                }
                if let Some(q) = &i.quantity {
                    model.add(q);
                }
            }
        }
        // the ingredient's own views: all_quantities lists exactly those quantities, group_quantities sums them
        let listed = Totals::of(g.ingredient.all_quantities(&r.ingredients));
        if let Err(e) = model.same(&listed) {
            vbail!("c10.all-quantities", "ingredient {} ({:?}): all_quantities() differs from the quantities of the definition and its references: {e}; source {src:?}", g.index, g.ingredient.name);
        }
        match guard(|| g.ingredient.group_quantities(&r.ingredients, &*CONV)) {
            Ok(own) => {
                if let Err(e) = model.same(&Totals::of(own.iter())) {
                    vbail!("c10.ingredient-group-total", "ingredient {} ({:?}): group_quantities() gives {own}, which differs from the sum of its quantities: {e}; source {src:?}", g.index, g.ingredient.name);
                }
            }
            Err(p) => vbail!("c10.panic.group_ingredients", "group_quantities panicked: {p}; source {src:?}"),
        }
        let t = Totals::of(g.quantity.iter());
        if let Err(e) = model.same(&t) {
            vbail!("c10.ingredient-group-total", "ingredient {} ({:?}): grouped {} but the quantities of the definition and its references sum differently: {e}; source {src:?}", g.index, g.ingredient.name, g.quantity);
        }
        grand.merge(&t);
    }
    // every quantity of a definition or regular reference counted exactly once overall
    let mut all = Totals::default();
    for i in &r.ingredients {
        let counted = match i.relation.references_to() {
            None => true,
            Some((_, IngredientReferenceTarget::Ingredient)) => true,
            _ => false,
        };
        if counted {
            if let Some(q) = &i.quantity {
                all.add(q);
            }
        }
    }
    if let Err(e) = all.same(&grand) {
        vbail!("c10.grand-total", "sum over all groups differs from the sum over all ingredient quantities: {e}; source {src:?}");
    }
    // cookware
    let cw = match guard(|| r.group_cookware()) {
        Ok(g) => g,
        Err(p) => vbail!("c10.panic.group_cookware", "group_cookware panicked: {p}; source {src:?}"),
    };
    let cdefs: Vec<usize> = r.cookware.iter().enumerate().filter(|(_, c)| c.relation.is_definition()).map(|(i, _)| i).collect();
    vensure!(cw.iter().map(|g| g.index).collect::<Vec<_>>() == cdefs, "c10.group-entries", "group_cookware entries differ from the cookware definitions; source {src:?}");
    for g in &cw {
        let mut model = Totals::default();
        for (j, c) in r.cookware.iter().enumerate() {
            if j == g.index || c.relation.references_to() == Some(g.index) {
                if let Some(v) = &c.quantity {
                    model.add(&Quantity::new(v.clone(), None));
                }
            }
        }
        let listed = Totals::of(g.cookware.all_amounts(&r.cookware).map(|v| Quantity::new(v.clone(), None)).collect::<Vec<_>>().iter());
        let own = g.cookware.group_amounts(&r.cookware);
        let own = Totals::of(own.iter().map(|v| Quantity::new(v.clone(), None)).collect::<Vec<_>>().iter());
        if let Err(e) = model.same(&listed).and_then(|_| model.same(&own)) {
            vbail!("c10.cookware-group-total", "cookware {} ({:?}): all_amounts() / group_amounts() differ from the amounts of the definition and its references: {e}; source {src:?}", g.index, g.cookware.name);
        }
        let got = Totals::of(g.amount.iter().map(|v| Quantity::new(v.clone(), None)).collect::<Vec<_>>().iter());
        if let Err(e) = model.same(&got) {
            vbail!("c10.cookware-group-total", "cookware {} ({:?}): grouped {} differs: {e}; source {src:?}", g.index, g.cookware.name, g.amount);
        }
        vensure!(g.amount.len() == g.amount.iter().count() && g.amount.is_empty() == (g.amount.len() == 0), "c10.len-iter-disagree", "GroupedValue len/iter/is_empty disagree");
    }
    st.class_if(any_ref, "ingredient-with-references");
    Ok(())
}

fn check_case(c: &RecipeCase, st: &mut Stats) -> Verdict {
    let factor = c.factor_bits.map(f64::from_bits);
    let mut recipes = vec![];
    for raw in &c.raws {
        if let Some(x) = scaled(raw, factor, st)? {
            if has_temperature(&x.1) {
                st.exclude("temperature unit on an ingredient (offset units have no additive amount)");
                continue;
            }
            recipes.push(x);
        }
    }
    if recipes.is_empty() {
        return Ok(());
    }
    for (src, r) in &recipes {
        check_recipe_grouping(src, r, st)?;
    }
    let srcs: Vec<&String> = recipes.iter().map(|(s, _)| s).collect();
    // shopping list over all recipes
    let mut list = IngredientList::new();
    let mut model: BTreeMap<String, Totals> = BTreeMap::new();
    for (_, r) in &recipes {
        if let Err(p) = guard(|| list.add_recipe(r, &*CONV)) {
            vbail!("c10.panic.add_recipe", "IngredientList::add_recipe panicked: {p}; sources {srcs:?}");
        }
        for (idx, i) in r.ingredients.iter().enumerate() {
            if i.relation.references_to().is_some() {
                continue;
            }
            if i.modifiers().intersects(Modifiers::HIDDEN | Modifiers::REF) {
                continue;
            }
            let name = i.alias.clone().unwrap_or_else(|| i.name.clone());
            let t = model.entry(name).or_default();
            for (j, other) in r.ingredients.iter().enumerate() {
                if j == idx || other.relation.references_to() == Some((idx, IngredientReferenceTarget::Ingredient)) {
                    if let Some(q) = &other.quantity {
                        t.add(q);
                    }
                }
            }
        }
    }
    let keys: Vec<&String> = list.iter().map(|(k, _)| k).collect();
    let mkeys: Vec<&String> = model.keys().collect();
    vensure!(keys == mkeys, "c10.list-keys", "the list has {keys:?}, the listed definitions (not hidden, not references) are {mkeys:?}; sources {srcs:?}");
    let mut grand = Totals::default();
    for (k, q) in list.iter() {
        check_group_api(q)?;
        let t = Totals::of(q.iter());
        if let Err(e) = model[k].same(&t) {
            vbail!("c10.list-total", "list entry {k:?} = {q} differs from the recipes' quantities: {e}; sources {srcs:?}");
        }
        grand.merge(&t);
    }
    // the same list built by hand through add_ingredient, from_recipe for a single recipe, and read by the
    // consuming iterator
    let mut by_hand = IngredientList::new();
    for (_, r) in &recipes {
        for g in r.group_ingredients(&*CONV) {
            if g.ingredient.modifiers().should_be_listed() {
                by_hand.add_ingredient(g.ingredient.display_name().into_owned(), &g.quantity, &*CONV);
            }
        }
    }
    let mut views: Vec<(&str, BTreeMap<String, Totals>)> = vec![("add_ingredient per grouped ingredient", by_hand.iter().map(|(k, q)| (k.clone(), Totals::of(q.iter()))).collect())];
    if recipes.len() == 1 {
        let l = IngredientList::from_recipe(&recipes[0].1, &*CONV);
        views.push(("IngredientList::from_recipe", l.iter().map(|(k, q)| (k.clone(), Totals::of(q.iter()))).collect()));
    }
    views.push(("the consuming iterator of the hand-built list", by_hand.into_iter().map(|(k, q)| (k, Totals::of(q.iter()))).collect()));
    for (what, v) in &views {
        let vk: Vec<&String> = v.keys().collect();
        vensure!(vk == keys, "c10.list-views-differ", "add_recipe lists {keys:?} but {what} gives {vk:?}; sources {srcs:?}");
        for (k, t) in v {
            if let Err(e) = model[k].same(t) {
                vbail!("c10.list-views-differ", "entry {k:?} read through {what} differs from the recipes' quantities: {e}; sources {srcs:?}");
            }
        }
    }
    st.class_if(recipes.len() > 1, "multi-recipe-list");
    if !model.is_empty() {
        st.nontrivial(&format!("{srcs:?}{:?}", c.factor_bits));
    }
    // aisle: categories built from the listed names (synonym lines may join two listed names)
    let names: Vec<String> = model.keys().filter(|n| !n.contains('|') && !n.contains('[') && !n.contains("//") && !n.trim().is_empty()).cloned().collect();
    let mut conf_text = String::new();
    let mut it = c.aisle.iter().cycle();
    let mut i = 0;
    let mut cat = 0;
    while i < names.len() && !c.aisle.is_empty() {
        let choice = *it.next().unwrap();
        if i == 0 || choice % 4 == 0 {
            cat += 1;
            conf_text.push_str(&format!("[cat{cat}]\n"));
        }
        match choice % 5 {
            // two listed names on one line: the second is a synonym of the first
            1 | 2 if i + 1 < names.len() => {
                conf_text.push_str(&format!("{}|{}\n", names[i], names[i + 1]));
                i += 2;
            }
            3 => {
                conf_text.push_str(&format!("common {i}|{}\n", names[i]));
                i += 1;
            }
            4 => i += 1, // not in the configuration -> "other"
            _ => {
                conf_text.push_str(&format!("{}\n", names[i]));
                i += 1;
            }
        }
    }
    let Ok(conf) = aisle::parse(&conf_text) else {
        st.exclude("generated aisle file rejected");
        return Ok(());
    };
    st.class_if(conf_text.contains('|'), "aisle-with-synonyms");
    let cat_list = match guard(|| list.categorize(&conf)) {
        Ok(c) => c,
        Err(p) => vbail!("c10.panic.categorize", "categorize panicked: {p}; aisle {conf_text:?}"),
    };
    let info = conf.ingredients_info();
    let mut expected_by_cat: BTreeMap<String, Totals> = BTreeMap::new();
    for (name, t) in &model {
        let cat = info.get(name.as_str()).map(|i| i.category.to_string()).unwrap_or_else(|| "other".to_string());
        expected_by_cat.entry(cat).or_default().merge(t);
    }
    let mut got_by_cat: BTreeMap<String, Totals> = BTreeMap::new();
    for (cat, l) in cat_list.iter() {
        for (_, q) in l.iter() {
            got_by_cat.entry(cat.to_string()).or_default().merge(&Totals::of(q.iter()));
        }
    }
    for (cat, e) in &expected_by_cat {
        let empty = Totals::default();
        let g = got_by_cat.get(cat).unwrap_or(&empty);
        if let Err(err) = e.same(g) {
            vbail!("c10.category-total", "category {cat:?}: amounts differ from the sum of its members: {err}\n aisle {conf_text:?}\n list {:?}\n sources {srcs:?}", model.keys().collect::<Vec<_>>());
        }
    }
    for cat in got_by_cat.keys() {
        vensure!(expected_by_cat.contains_key(cat), "c10.category-invented", "category {cat:?} appears without members; aisle {conf_text:?}");
    }
    let mut after = Totals::default();
    for t in got_by_cat.values() {
        after.merge(t);
    }
    if let Err(e) = grand.same(&after) {
        vbail!("c10.categorize-grand-total", "splitting by aisle changed the grand total: {e}; aisle {conf_text:?}; sources {srcs:?}");
    }
    // the three ways of reading the split list (borrowing iterator, public fields, consuming iterator) agree
    let mut by_fields: BTreeMap<String, Totals> = BTreeMap::new();
    for (cat, l) in &cat_list.categories {
        for (_, q) in l.iter() {
            by_fields.entry(cat.clone()).or_default().merge(&Totals::of(q.iter()));
        }
    }
    for (_, q) in cat_list.other.iter() {
        by_fields.entry("other".to_string()).or_default().merge(&Totals::of(q.iter()));
    }
    let mut by_into: BTreeMap<String, Totals> = BTreeMap::new();
    match guard(move || {
        let mut v = vec![];
        for (cat, l) in cat_list {
            for (name, q) in l {
                v.push((cat.clone(), name, q));
            }
        }
        v
    }) {
        Ok(v) => {
            for (cat, _, q) in &v {
                by_into.entry(cat.clone()).or_default().merge(&Totals::of(q.iter()));
            }
        }
        Err(p) => vbail!("c10.panic.categorize", "consuming the categorized list panicked: {p}; aisle {conf_text:?}"),
    }
    for (what, other) in [("the public fields", &by_fields), ("the consuming iterator", &by_into)] {
        let keys_a: Vec<&String> = got_by_cat.keys().collect();
        let keys_b: Vec<&String> = other.keys().collect();
        vensure!(keys_a == keys_b, "c10.categorized-views-differ", "categories seen through iter() {keys_a:?} but through {what} {keys_b:?}; aisle {conf_text:?}; sources {srcs:?}");
        for (cat, t) in &got_by_cat {
            if let Err(e) = t.same(&other[cat]) {
                vbail!("c10.categorized-views-differ", "category {cat:?} read through iter() and through {what} holds different amounts: {e}; aisle {conf_text:?}; sources {srcs:?}");
            }
        }
    }
    Ok(())
}

fn qm() -> impl Strategy<Value = QM> {
    (0u8..3, 0u32..4000, 0u32..400, 0u8..22).prop_map(|(kind, a, b, unit)| QM { kind, a, b, unit })
}

pub fn run(tier: Tier) -> i32 {
    let mut run = Run::new("C10", tier);
    run.assume("totals are compared per physical quantity in base units (bundled ratios), per unknown unit string and for unitless values, ranges end-wise, relative 1e-9; text values as a multiset; temperature units on ingredients are excluded");
    run.assume("categorize: amounts are conserved per category and overall; the statement does not require synonyms to be merged under one entry");
    run.replay_regressions(&|part, j| match part {
        "histories" => check_history(&case_from(j)?, &mut Stats::default()),
        "same-name" => check_same_name(&case_from(j)?, &mut Stats::default()),
        _ => check_case(&case_from(j)?, &mut Stats::default()),
    });
    if !run.failed() {
        run_prop(
            &mut run,
            "histories",
            "histories of 0-12 operations Add(q) / MergeFrom(group built from 0-4 quantities) / Fit over quantities with number, range and text values in known units (any key), unknown units or none; after every step len/iter/into_vec/is_empty agree and the totals equal the running sum of the inputs; non-trivial = at least 3 operations; distinct = distinct history",
            || {
                proptest::collection::vec(
                    prop_oneof![6 => qm().prop_map(Op::Add), 2 => proptest::collection::vec(qm(), 0..5).prop_map(Op::MergeFrom), 1 => Just(Op::Fit)],
                    0..12,
                )
            },
            tier.pick(60_000, 6_000_000),
            |ops: &Vec<Op>, st| {
                st.sample(|| json!(format!("{ops:?}")));
                check_history(ops, st)
            },
        );
    }
    if !run.failed() {
        run_prop(
            &mut run,
            "recipes",
            "1-3 generated Ext recipes (references, duplicate=ref mode, hidden/optional modifiers, aliases, all value kinds), default-scaled or scaled: group_ingredients / group_cookware entries = definitions in order with own + referring quantities (references found by scanning), every quantity counted once; IngredientList over all recipes = listed definitions by display name with summed totals; categorize with a generated aisle file (synonym lines joining listed names, unlisted names) conserves the amounts per category and overall; non-trivial = the list has entries",
            || {
                (proptest::collection::vec(raw_recipe(Some(true)), 1..=3), proptest::option::weighted(0.5, 0.1f64..20.0), proptest::collection::vec(any::<u8>(), 0..8))
                    .prop_map(|(mut raws, f, aisle)| {
                        // a quarter of the cases: the first recipe runs in `[duplicate]: ref` or `[mode]: steps`
                        // mode and writes its references with an explicit (there redundant) `&`
                        if aisle.first().is_some_and(|a| a % 4 == 0) {
                            let r = &mut raws[0];
                            r.blocks.insert(0, RawBlock::Mode(if aisle[0] % 8 == 0 { 5 } else { 2 }));
                            for b in r.blocks.iter_mut() {
                                if let RawBlock::Step(toks) = b {
                                    for (_, t) in toks.iter_mut() {
                                        if let RawTok::Comp(c) = t {
                                            c.mods |= 24;
                                        }
                                    }
                                }
                            }
                        }
                        RecipeCase { raws, factor_bits: f.map(f64::to_bits), aisle }
                    })
            },
            tier.pick(12_000, 1_200_000),
            |c: &RecipeCase, st| check_case(c, st),
        );
    }
    if !run.failed() {
        run_prop(
            &mut run,
            "same-name",
            "one recipe with 2-7 ingredient definitions drawn from 6 names that share display names (the same name twice, aliases `white flour|flour` / `rye flour|flour`, `+` / `-` / `?` modifiers), numeric amounts in mass, volume, unknown or no units and text amounts, default-scaled or scaled by 2: IngredientList::from_recipe, add_recipe on an empty list and from_recipe + add_recipe of the same recipe must list exactly the display names of the listed ingredients with the sum of their own quantities (twice for the last); non-trivial = two definitions share a display name",
            || (proptest::collection::vec((0u8..6, any::<u8>(), 0u8..7, prop_oneof![4 => Just(0u8), 1 => 1u8..4]), 2..=7), any::<bool>()).prop_map(|(defs, scaled)| SameNameCase { defs, scaled }),
            tier.pick(4_000, 200_000),
            check_same_name,
        );
    }
    run.finish()
}

// ---------------------------------------------------------------------------
// several listed definitions under one display name

const SAME_NAMES: [&str; 6] = ["salt", "white flour|flour", "rye flour|flour", "flour", "Salt", "sea salt|salt"];
const SAME_UNITS: [&str; 7] = ["%g", "%kg", "", "%pinch", "%cup", "%ml", "%oz"];
const SAME_TEXTS: [&str; 3] = ["a handful", "to taste", "some"];

/// (name, value 1..60 or a text, unit, modifier: 0 none, 1 `+` new, 2 `-` hidden, 3 `?` optional)
#[derive(Debug, Clone, Serialize, Deserialize)]
pub struct SameNameCase {
    pub defs: Vec<(u8, u8, u8, u8)>,
    pub scaled: bool,
}

fn same_name_source(c: &SameNameCase) -> String {
    let mut s = String::from("Mix");
    for (n, v, u, m) in &c.defs {
        let name = SAME_NAMES[*n as usize % SAME_NAMES.len()];
        let value = if v % 7 == 6 { SAME_TEXTS[*v as usize % 3].to_string() } else { (1 + v % 60).to_string() };
        let unit = if v % 7 == 6 { "" } else { SAME_UNITS[*u as usize % SAME_UNITS.len()] };
        let modifier = ["", "+", "-", "?"][*m as usize % 4];
        s.push_str(&format!(" @{modifier}{name}{{{value}{unit}}},"));
    }
    s.push_str(" well.\n");
    s
}

fn check_same_name(c: &SameNameCase, st: &mut Stats) -> Verdict {
    let src = same_name_source(c);
    st.sample(|| json!({"source": src}));
    let Some(r) = cooklang::CooklangParser::new(cooklang::Extensions::all(), CONV.clone()).parse(&src).into_output() else {
        vbail!("c10.infrastructure", "the generated recipe does not parse: {src:?}");
    };
    let r = if c.scaled { r.scale(2.0, &*CONV) } else { r.default_scale() };
    // every ingredient here is a definition (no `&`, default mode): its own quantity, under its display name
    let mut expected: BTreeMap<String, Totals> = BTreeMap::new();
    let mut per_name: BTreeMap<String, usize> = BTreeMap::new();
    for i in &r.ingredients {
        if !i.modifiers().should_be_listed() {
            continue;
        }
        let e = expected.entry(i.display_name().into_owned()).or_default();
        e.merge(&Totals::of(i.quantity.iter()));
        *per_name.entry(i.display_name().into_owned()).or_insert(0usize) += 1;
    }
    let read = |l: &IngredientList| -> BTreeMap<String, Totals> { l.iter().map(|(k, q)| (k.clone(), Totals::of(q.iter()))).collect() };
    let from_recipe = match guard(|| IngredientList::from_recipe(&r, &*CONV)) {
        Ok(l) => l,
        Err(p) => vbail!("c10.panic.add_recipe", "IngredientList::from_recipe panicked: {p}; source {src:?}"),
    };
    let mut added = IngredientList::new();
    added.add_recipe(&r, &*CONV);
    let mut twice = IngredientList::from_recipe(&r, &*CONV);
    twice.add_recipe(&r, &*CONV);
    let mut doubled = expected.clone();
    for (k, t) in &expected {
        doubled.get_mut(k).unwrap().merge(t);
    }
    for (what, got, want) in [("IngredientList::from_recipe", read(&from_recipe), &expected), ("add_recipe on an empty list", read(&added), &expected), ("from_recipe followed by add_recipe of the same recipe", read(&twice), &doubled)] {
        vensure!(
            got.keys().collect::<Vec<_>>() == want.keys().collect::<Vec<_>>(),
            "c10.list-views-differ",
            "{what} lists {:?}, the listed ingredients have the display names {:?}; source {src:?}",
            got.keys().collect::<Vec<_>>(), want.keys().collect::<Vec<_>>()
        );
        for (k, t) in &got {
            if let Err(e) = want[k].same(t) {
                vbail!("c10.list-total", "{what}: entry {k:?} differs from the sum of the ingredients listed under that name: {e}; source {src:?}");
            }
        }
    }
    let shared = per_name.values().any(|n| *n > 1);
    st.class_if(shared, "several definitions under one display name");
    if shared {
        st.nontrivial(&src);
    }
    Ok(())
}

pub fn replay(part: &str, j: &serde_json::Value) -> Verdict {
    match part {
        "histories" => check_history(&case_from(j)?, &mut Stats::default()),
        "same-name" => check_same_name(&case_from(j)?, &mut Stats::default()),
        _ => check_case(&case_from(j)?, &mut Stats::default()),
    }
}
