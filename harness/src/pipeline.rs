//! Configurations (192 extension subsets x converters), cached parsers and the
//! "consume everything" pipeline used by the robustness oracles.

use std::sync::{LazyLock, OnceLock};

use cooklang::convert::System;
use cooklang::error::SourceReport;
use cooklang::{Converter, CooklangParser, Extensions};

pub fn ext_from_mask(mask: u8, modstate: u8) -> Extensions {
    // mask: 6 independent flags; modstate: 0 none, 1 modifiers, 2 modifiers + intermediate
    let mut e = Extensions::empty();
    let flags = [
        Extensions::COMPONENT_ALIAS,
        Extensions::ADVANCED_UNITS,
        Extensions::MODES,
        Extensions::INLINE_QUANTITIES,
        Extensions::RANGE_VALUES,
        Extensions::TIMER_REQUIRES_TIME,
    ];
    for (i, f) in flags.iter().enumerate() {
        if mask & (1 << i) != 0 {
            e |= *f;
        }
    }
    match modstate {
        1 => e |= Extensions::COMPONENT_MODIFIERS,
        2 => e |= Extensions::INTERMEDIATE_PREPARATIONS,
        _ => {}
    }
    e
}

/// All 192 distinct extension sets. Index 0 = empty, index 191 = all.
pub static ALL_EXTS: LazyLock<Vec<Extensions>> = LazyLock::new(|| {
    let mut v = vec![];
    for modstate in 0..3u8 {
        for mask in 0..64u8 {
            v.push(ext_from_mask(mask, modstate));
        }
    }
    assert_eq!(v.len(), 192);
    assert_eq!(v[0], Extensions::empty());
    assert_eq!(v[191], Extensions::all());
    v
});

pub const N_EXT: usize = 192;
pub const EXT_EMPTY: usize = 0;
pub const EXT_ALL: usize = 191;

/// A few subsets sampled for the enumerations (besides empty and all)
pub const SAMPLED_EXTS: [usize; 8] = [
    0,   // empty
    191, // all
    64 + 0b000101, // modifiers + alias + modes
    128 + 0b011010, // inter + advanced + inline + range
    0b111111, // all but modifiers
    128, // only modifiers+intermediate
    64 + 0b100010, // modifiers + advanced units + timer requires time
    0b010100, // modes + range
];

pub static BUNDLED: LazyLock<Converter> = LazyLock::new(Converter::bundled);
pub static EMPTY: LazyLock<Converter> = LazyLock::new(Converter::empty);

pub fn converter(sel: u8) -> &'static Converter {
    if sel == 0 {
        &EMPTY
    } else {
        &BUNDLED
    }
}

static PARSERS: LazyLock<Vec<OnceLock<CooklangParser>>> =
    LazyLock::new(|| (0..N_EXT * 2).map(|_| OnceLock::new()).collect());

/// conv: 0 = empty converter, 1 = bundled
pub fn parser(ext_idx: usize, conv: u8) -> &'static CooklangParser {
    let conv = (conv != 0) as usize;
    PARSERS[ext_idx * 2 + conv]
        .get_or_init(|| CooklangParser::new(ALL_EXTS[ext_idx], converter(conv as u8).clone()))
}

pub fn ext_name(ext_idx: usize) -> String {
    format!("{:?}", ALL_EXTS[ext_idx])
}

pub fn render_report(report: &SourceReport, input: &str) -> Result<(), String> {
    // every diagnostic is rendered with the source lines it points at: thousands of diagnostics on one very
    // long line make gigabytes of text. Then the first and last 40 are rendered one by one.
    let n = report.iter().count();
    if n.saturating_mul(input.len()) > (32 << 20) {
        let diags: Vec<&cooklang::error::SourceDiag> = report.iter().collect();
        let picked: Vec<&&cooklang::error::SourceDiag> = diags.iter().take(40).chain(diags.iter().skip(n.saturating_sub(40).max(40))).collect();
        for d in picked {
            let mut buf = Vec::new();
            cooklang::error::write_rich_error(*d as &dyn cooklang::error::RichError, "verif.cook", input, false, &mut buf).map_err(|e| format!("write_rich_error returned Err: {e}"))?;
        }
        return Ok(());
    }
    for color in [false, true] {
        let mut buf = Vec::new();
        report
            .write("verif.cook", input, color, &mut buf)
            .map_err(|e| format!("SourceReport::write returned Err: {e}"))?;
    }
    let _ = report.to_string();
    Ok(())
}

pub const AISLE_SAMPLE: &str = "[produce]\nsalt|a\nflour\n[dairy]\nmilk|kg\nwater\n";

pub const SYSTEMS: [System; 2] = [System::Metric, System::Imperial];

/// Pure parse options used wherever options are exercised: a recipe-reference checker and a metadata
/// validator that are functions of the name / key text only. Keys of even length are excluded, keys whose length is a multiple of 3 skip the
/// standard checks, keys containing an `a` get a warning.
pub fn test_options<'a>() -> cooklang::ParseOptions<'a> {
    use cooklang::analysis::CheckResult;
    cooklang::ParseOptions {
        // recipe references: names of even length are "not found", names with an `e` get a warning
        recipe_ref_check: Some(Box::new(|name: &str| {
            if name.chars().count() % 2 == 0 {
                CheckResult::Error(vec!["no such recipe".into()])
            } else if name.contains('e') {
                CheckResult::Warning(vec!["recipe found in another directory".into()])
            } else {
                CheckResult::Ok
            }
        })),
        metadata_validator: Some(Box::new(|k: &serde_yaml::Value, _v: &serde_yaml::Value, o: &mut cooklang::analysis::CheckOptions| {
            let key = match k.as_str() {
                Some(s) => s.to_string(),
                None => format!("{k:?}"),
            };
            let n = key.chars().count();
            if n % 2 == 0 {
                o.include(false);
            }
            if n % 3 == 0 {
                o.run_std_checks(false);
            }
            if key.contains('a') {
                CheckResult::Warning(vec!["the validator does not like this key".into()])
            } else {
                CheckResult::Ok
            }
        })),
    }
}
