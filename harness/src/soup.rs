//! E2: "token soup" inputs — sequences over an alphabet that contains every marker, comment
//! delimiter, kind of newline/blank, number shape and multi-byte characters.

use proptest::prelude::*;
use serde::{Deserialize, Serialize};

use crate::pipeline::*;

pub const ALPHABET: &[&str] = &[
    // plain
    "a", " ", "\n", "salt", "1",
    // markers
    "@", "#", "~", "{", "}", "(", ")", "%", "|", "&", "?", "+", "-", "=", ">", ">>", ":", ".", "/",
    "*", "\\", ",",
    // comments / brackets
    "--", "[-", "-]", "[", "]",
    // newlines and blanks
    "\r\n", "\r", "\t", "\u{a0}", "\u{3000}",
    // numbers
    "0", "7", "12", "007", "1/2", "1.5",
    // words / units
    "kg", "min", "ºC", "h",
    // multi-byte
    "é", "—", "😀", "·", "\u{feff}", "\u{2212}", "\0",
    // structure
    "---", "[mode]", "steps", "ref", "text", "[duplicate]", "components",
];

/// An input with the configuration it is parsed under.
#[derive(Debug, Clone, Serialize, Deserialize, PartialEq, Eq, Hash)]
pub struct InputCase {
    /// pieces concatenated to form the input (kept separate so shrinking removes whole tokens)
    pub pieces: Vec<String>,
    /// index into the 192 extension subsets
    pub ext: usize,
    /// 0 = empty converter, 1 = bundled units
    pub conv: u8,
}

impl InputCase {
    pub fn input(&self) -> String {
        self.pieces.concat()
    }
    pub fn describe(&self) -> serde_json::Value {
        serde_json::json!({
            "input": self.input(),
            "extensions": ext_name(self.ext),
            "converter": if self.conv == 0 { "empty" } else { "bundled" },
        })
    }
}

pub fn ext_strategy() -> impl Strategy<Value = usize> {
    prop_oneof![
        3 => Just(EXT_ALL),
        2 => Just(EXT_EMPTY),
        2 => proptest::sample::select(SAMPLED_EXTS.to_vec()),
        3 => 0usize..N_EXT,
    ]
}

pub fn token_strategy() -> impl Strategy<Value = String> {
    // weights: markers and structure more often than filler
    let toks: Vec<String> = ALPHABET.iter().map(|s| s.to_string()).collect();
    prop_oneof![
        6 => proptest::sample::select(toks),
        1 => "[a-z]{1,6}".prop_map(|s| s),
        1 => (0u32..5000).prop_map(|n| n.to_string()),
        // any character at all (proptest favours NUL, controls, exotic blanks, surrogates' neighbours, ...)
        1 => any::<char>().prop_map(|c| c.to_string()),
        1 => proptest::sample::select(EXOTIC_BLANKS.to_vec()).prop_map(|s| s.to_string()),
    ]
}

/// characters that are white space for Unicode but not for ASCII-only tests, and other invisible ones
pub const EXOTIC_BLANKS: &[&str] = &[
    "\u{a0}", "\u{3000}", "\u{2003}", "\u{2009}", "\u{85}", "\u{b}", "\u{c}", "\u{1680}", "\u{2028}", "\u{2029}", "\u{202f}", "\u{205f}",
    "\u{200b}", "\u{feff}", "\u{ad}", "\0",
];

/// E2(b): random weighted sequences
pub fn soup_strategy(max_len: usize) -> impl Strategy<Value = InputCase> {
    (
        proptest::collection::vec(token_strategy(), 1..=max_len),
        ext_strategy(),
        0u8..2,
    )
        .prop_map(|(pieces, ext, conv)| InputCase { pieces, ext, conv })
}

/// values for standard metadata keys, including extreme numbers
pub fn metadata_value_strategy() -> impl Strategy<Value = String> {
    let num = prop_oneof![
        3 => (0u64..200).prop_map(|n| n.to_string()),
        1 => proptest::sample::select(vec!["4294967295", "4294967296", "71582788", "71582789", "99999999999", "1e20", "-5", "inf", "nan", "1.5", "0.4", "18446744073709551616", "1e400"]).prop_map(|s| s.to_string()),
    ];
    let unit = proptest::sample::select(vec!["h", "m", "min", "s", "d", "hour", "hours", "minutes", "days", "sec", "kg", "", "x"]);
    prop_oneof![
        2 => num.clone(),
        3 => (proptest::collection::vec((num.clone(), proptest::sample::select(vec!["", " "]), unit), 1..4))
            .prop_map(|v| v.into_iter().map(|(n, s, u)| format!("{n}{s}{u}")).collect::<Vec<_>>().join(" ")),
        2 => (num.clone(), num.clone()).prop_map(|(h, m)| format!("{h}h{m}m")),
        1 => proptest::collection::vec(num.clone(), 0..4).prop_map(|v| v.join("|")),
        1 => proptest::collection::vec(num, 0..4).prop_map(|v| format!("[{}]", v.join(", "))),
        1 => "[a-z ,|<>:/.]{0,16}".prop_map(|s| s),
    ]
}

/// "line oriented" soup: lines built from a few line templates, so that block structure,
/// metadata lines, sections, fences and text blocks occur together.
pub fn lines_strategy() -> impl Strategy<Value = InputCase> {
    let line = prop_oneof![
        2 => proptest::collection::vec(token_strategy(), 0..8).prop_map(|v| v.concat()),
        1 => Just("---".to_string()),
        1 => Just("--- ".to_string()),
        1 => ("[a-z]{1,5}", proptest::collection::vec(token_strategy(), 0..4)).prop_map(|(k, v)| format!(">> {k}: {}", v.concat())),
        1 => ("[a-z]{1,5}", "[a-z0-9 ]{0,6}").prop_map(|(k, v)| format!("{k}: {v}")),
        1 => proptest::sample::select(vec![
            ">> [mode]: steps", ">> [mode]: components", ">> [mode]: text", ">> [mode]: all", ">> [duplicate]: ref",
            ">> [duplicate]: new", ">> servings: 2|4", ">> time: 1h 30min", ">> tags: a, b", "= sec", "== sec ==", "=",
            "> note", ">", "", " ", "-- c", "[- c -]", "@a{1%kg}", "@&a{2}", "#b{}", "~{5%min}", "~t{}", "@&(~1)x{}",
            "@&(=1)y{}", "@a|b{}", "@c{1-2%g}", "@d{=1 kg}(n)", "bake at 180 ºC", "@./x/y{}", "time: 5", "servings: [1, 2]",
            "servings: []", "tags: []", "time: {prep: 1h, cook: 20}", "author: {name: a, url: \"https://x.y\"}", "? [a]\n: b",
            "locale: en_GB", "source: A <https://a.b/c>", "Weigh 2.1.3 g and 10.11.2024 kg", "\u{feff}Mix @a{1%kg}", "\u{feff}é @{1%kg} é", "@&a(\u{a0}sifted\u{a0})", "#&b{}(\u{3000}清潔)", "@&a{2}(\u{a0})", "== sec == trailing 2", "= a = b", ">>[-\n\n\n", "a @&x[- c\n\n\n d -]{} b", ">> servings: 0", "@a{0%kg}", ">> servings: 0\n\n@a{0%kg} @b{1%kg} @c{0-2%cup} #d{0} ~{0%min} 0 kg", "---\nservings: 0\n---\n@a{0%kg} and @b{0 tsp}", ">> servings: 0|2\n@x{0%lb}(n) @&x{0%oz}", "@b{99999999999999999999999999999999999999999999999999999999999999999999999999999999999999999999999999999999999999999999999999999999999999999999999999999999999999999999999999999999999999999999999999999999999999999999999999999999999999999999999999999999999999999999999999999999999999999999999999999999999999999999999%g}", "---\n#\ntitle: Café\ntime: 1h\nprep time: 10 min\n---", "---\n# é\n\nx: [é,\n  ö]\ncook time: 5\ntime: 2h\n---", "@water{250\u{a0}ml}", "~{=5\u{a0}min}", "@x{1\u{3000}kg}", "---- Grandma ----", "--- my notes", "[-- note --]", "[- note --] @x{}", "#frying pan|pan{}", "#&pan{}", "@../../shared/dough{}", "@./a/./b{}", "@./a//b{1%kg}", "@.\\win\\path{}", "@./trailing/{}", "Season with @ salt to taste", "Heat the # 2 burner", "~ now or ~{} later", "[- c -]>> k: v", "[- c -] >> servings: 4", "  >> k: v", "\t>> k: v", "[- a\nb -]>> k2: v", "x >> k: v", "[-]>> k: v", ">>k:v", ">> k : v : w", "Add 5 g of salt", "use 3 kg", "prep time: 10 min", "cook time: 1.5 hours",
            ">> [mode]: [-é-]   bad", ">> [bogus]: [- ö -]  v", ">> servings: [- é -]   x", ">>  [- é -]  [mode] : steps", ">> time:  [-é-] soon  [- ü -] ",
            ">> [define]: steps [- ñ -]  ", ">> [duplicate]:[-é-] new", "== sec == [- a -] -- b", "= sec = [- a -] [- b -]", "== sec ==[- é -][- ö -]",
            "@\u{a0}{}", "#\u{2009}{}", "@salt|\u{3000}{}", "~\u{a0}{}", ">>\u{a0}: v", "@\u{a0}salt\u{a0}{1%kg}", "to \u{2212}5 degrees", "a\0b", "x \0 y", "\0",
            "@a{} @&a{}(-- é\nx)", "@a{}(-- é\nx) @&a{}(y)", "#b{}([- ü -]x)\n#&b{}([-é-]y)", "@a{1%kg}(-- 😀\n) @&a(-- é\n z)", "~t{5%min}(-- é\nx)",
            "@@éa {1}", "@@green  pesto {}", "@@./dir/é name{}", "@@pesto{} @@tomato sauce  {2%kg}", "@@bechamel{}\n>> ab: 1\n>> abc: 2\n>> abcd: 3", "@&./sauces/tomato{}", "@+&../basics/pesto{}", "@./a/b{} @&./a/b{}", "@./my [- c -] sauces/tomato [- d -] sauce{1%kg}",
            "\u{feff}---\ntitle: Café\n---\nAñade @sal{1%g} y más ñ\n", "\u{feff}\n---\nk: é\n---\nñandú @ñame{} é", "\u{feff}>> title: Soup", "\u{feff}---\ntitle: x\n---\n@a{}", "\u{feff}>> [mode]: steps", "@sea salt{ [- to taste -] }", "#pan{[- 1 -]}", "~rest{ [-é-] }", "-18 °C now", "#freezer{}-18 °C", "---\nservings: []\n---\n@a{1%kg}",
            "---\ntime: {prep: 10, cook: until golden}\n---", "---\ntime:\n  prep: 10 min\n  cook: 4294967296\n---", ">> [mode: steps\n@a{} @b{}", ">> [duplicate: ref",
            "@&(1)&(1)mix{}", "#&(1)&(1)pan{}", "@&(1)?&(2)x{}", "@&(~1)+dough{}", "@+&(1)dough{}", ">> [mode]: steps\nAdd @+&salt{} now.", ">> [mode]: steps\n@salt{} @+&salt{1%g} #+&pan{}", "~-rest{5%min}", "~+a bit", "~&t{1%min}",
            "@flour{1/0 kg}", "@flour{2 1/0 cups}", "~rest{1/0 min}", "@sugar{1-3/0 tbsp}", "@a{1\n%kg}", "@a{\n}", "@a{ -- c\n}", "@a{1 [- c -]kg}", "~{5 [- c -]min}", "#pan{1 [- c -]large}",
            ">> note: serve  cold", ">> a: b  |  c", "@salt{1%tsp.}", "@milk{1%fl. oz.}",
            "@a{4294967295.6%cup}", "@b{4294967295.5%oz} @c{2147483647.8%lb}", "@d{4294967295.9 cups}", "== \\@home ==", "= [- c -] Dough =", "=  \\= x", "> Tips\n \\#1 rest the dough", "> a\n [- c -] b",
            "---\n\ntitle: Pancakes\nservings: 4\n---\nMix é", "---\r\n\r\nauthor: Ana\r\n---\r\nx", "= A\n\nx @a{}\n\n= B\n\ny @b{}\n\n= C\n\n@&(=3)z{} @&(=~0)w{}", "= A\n\nx\n\n==\n\n= C\n\n@&(=2)z{}",
            ">> [mode]: components\n@flour{1%kg}\n>> [mode]: all\n@&flour{2%kg} @flour{3%g}", ">> [mode]: components\n@flour{1%kg}\n>> [mode]: steps\n@flour{2%kg}", "@flour|[- todo -]{200%g}", "#frying pan| [- todo -] {}", "@x|\n{1%kg}",
            "@water{0-250%ml}", "@oil{=0-100%ml} ~{0-5%min}", "@x{0%kg} @y{0-0%g}",
            ">> serves: 4", ">> yield: 6|12", "@x{.05%g}", "@x{.05-.1%g}", "@x{.5 g}", "[---]", "[- x --] y", "[- a - b -]",
            // units where none is allowed, blanks at every separating position (see the blank substitution below)
            "#pot{1 big}", "#pan{2%large}", "#lid{1 small}(n)", "#b{ 1 x }", "~{5 kg}", "~t{ 5 % kg }", "@a{ 1 % kg }( n )", "#pot{ 2 }( big )", "@&a{ 1 kg }",
            // blocks without any item under each mode (a lone backslash at the very end escapes nothing)
            ">> [mode]: steps\nMix the @flour{}.\n\n\\", ">> [mode]: components\n@flour{200%g}\n>> [mode]: steps\nMix the @flour{}.\n\n\\", ">> [mode]: text\nsome text\n\n\\", ">> [mode]: steps\n\\", ">> [mode]: components\n\\\n\n\\", ">> [duplicate]: ref\n@a{}\n\n\\", "= s\n\n\\", "> \\",
            // front matter with CRLF endings and non-ASCII text right before a key that gets a diagnostic
            "---\r\ntitle: Soufflé\r\nauthor: 親子丼\r\nnote: é\r\nservings: many\r\n---\r\nMix", "---\r\nx: é\r\ny: é\r\nz: 親子丼\r\nlocale: english\r\ntime: 1h\r\nprep time: 5 min\r\n---\r\n",
            "---\ntitle: Pizza 🍕\ntags: x\n---", "---\na: é\nauthor: 🍕\ncategory: 親子丼\nab: 1\nabc: 2\n---\n@a{}", "---\ntitle: 親子丼\nyield: many\nname: é\n---",
            // braces holding only blanks or comments, in every component
            "~{ }", "~nap{ }", "~nap{-- 日本\n}", "~{[- 日本 -]}", "~{ [- é -] }", "@x{-- é\n}", "#p{[-é-]}( )", "~{\n}",
            // a path-form definition and references to it by stem or by another path
            "@./sauces/Pesto{1%cup} and @&pesto{}", "@../basics/sauces/pesto{} then @&./sauces/Pesto{}", ">> [duplicate]: ref\n@./a/Dough{1%kg} @dough{2%kg}",
            // several different modifiers, each repeated
            "@-?-?salt{}", "#?-+?-+pan{}", "@&&++x{}", "@??--&&y{1%kg}",
            // an empty front matter and config-like keys; an indented first `>>`
            "---\n---\n>> [portion]: large\nMix @flour{1%kg}.", "---\n\n---\n>> [mode]: steps\n@a{}", "  >> title: Pie\nMix @flour{1%kg}.", "[- c -] >> title: Pie\nMix", "\n\n  >> k: v",
            // a lock on the line after the opening brace, behind a comment
            "Mix @salt{ -- never scale\n  =1%tsp}", "@salt{ [- c -]\n =1 tsp}", "@a{ -- c\n=2}",
            // references with a text amount to a numeric definition and the reverse
            "@salt{1%pinch} then @&salt{to taste}", "@salt{to taste} then @&salt{1%pinch} and @&salt{a bit}",
            // notes with nothing in them
            "@onion{1}() @garlic{2%cloves}( ) @salt() #pan() ~t{1%min}()",
            // a text amount first, a number in a later reference (and the reverse), for cookware and ingredients
            "#pan{big} then #&pan{2}", ">> [duplicate]: ref\n#bowl{large} #bowl{1} #bowl{2}", "#pan{2} then #&pan{big} and #&pan{3}", "@salt{some} @&salt{2} @&salt{1%g}",
            // mixed numbers with a zero part
            "@flour{1 0/2%cup}", "#pan{2 0/3}", "~{1 0/2%min}", "@milk{1 0/2 cup}", "@w{1-2 0/2%l}", "@x{0 1/2%kg}", "@x{0 0/2}", "@y{0/4%g}",
            // a blank between the number of an intermediate reference and the closing parenthesis
            "Knead.\n\nBake the @&(~1 )dough{}.", "@&(7 )x{}", "#&(1 )pan{}", "@&( =~1 )y{}", "Knead.\n\nBake @&(~1\u{a0})dough{} and @&(7\u{3000})x{}",
            // characters without width next to the places diagnostics point at
            "Add @flour{200%g}\u{200b}\n\nAdd more @&flour{}(sifted).", "@a{}\u{200b} @&a{}(n)\u{200d}", "~{}\u{200b}", "@\u{200b}{}", "@a|\u{feff}{}", "#p{1%kg}\u{301}", ">> \u{200b}: v",
            // a line made of escapes only, between other lines
            "first line\n\\a\nlast line", "  \\1\\2  ", "x\n\\é\\b\ny", "> note\n\\n\n> more",
            // a relative section reference in the first section
            "@&(=~1)dough{}", "= A\n@&(=~1)x{} and @&(=~2)y{}", "@&(=1)z{}",
            // a front matter that does not start at byte 0, with a value that gets a diagnostic
            "\n\n---\ntitle: [a\n---\nstep", "\u{feff}\n---\nservings: many\ntime: x\n---\n", "  \n \n---\nlocale: english\nprep time: soon\n---\n@a{}", "\n\n\n\n\n---\n- a\n- b\n---\n",
            // intermediate-reference syntax under every subset of the two modifier extensions
            "Use @(1)x{} and @&(1)x{}", "Mix.\n\nUse @&(1)x{}", "#(1)p{} #&(~1)p{}",
            // durations with a zero amount of something that is no time unit, repeated hour groups
            ">> time: 0 parsecs", ">> time: 1 h 0 bananas", ">> prep time: 0 km", ">> time: 1h2h", ">> cook time: 1h1h30m", "---\ntime: {prep: 0h2h5m, cook: 0 g}\n---",
            // blank component parts wrapped over a line break
            "@salt{1%\n}", "~\n{5%min}", "#pan|\n{}", "~egg{5%\n}", "@x{\n%kg}", "@y|\n z{}",
            // descending ranges
            "@potatoes{1.5-1%kg} bake at 220-180 C ~{60-45%min}", "@x{5-2%kg} @y{2-2%l}",
            // names that are only a path prefix, with the recipe marker
            "@@..{}", "@@/{}", "@@.{}", "@@dir/..{}", "@@./{}", "@@../{}", "@@./ {1}", "@@a/b/{}", "@@ {}",
            // servings followed directly by letters and numerals that are not ASCII
            ">> servings: 4人分", ">> serves: 2é", ">> yield: 3½ portions", "---\nservings: 6ª\n---", "---\nservings: [4人分, 2é]\n---", ">> servings: 2|4人分|6個",
        ]).prop_map(|s| s.to_string()),
        // the same templates with every ASCII blank replaced by one that is not ASCII (multi-byte separators
        // in front of units, notes, values, names)
        1 => (proptest::sample::select(vec![
            "@a{1 kg}", "#pot{1 big}", "#lid{1 small}(n)", "~{5 min}", "~{5 kg}", "@a{ 1 % kg }( n )", "#pot{ 2 }( big )", "@&a{ 1 kg }", "@a{1 1/2 cups}", "@a{1 - 2 % g}",
            ">> servings: 2 | 4", ">> time: 1 h 30 min", "= sec =", "== a b ==", "> note text", "@olive oil{}", "#frying pan|pan{}", "@&(~ 1)x{}", "@a|b c{}", "bake at 180 C for 5 min",
            "@d{= 1 kg}(n)", "@x{ }", "#y{ }( )", "~ {5 % min}", "@@green pesto {}", ">> [mode] : steps", "[- c -] >> k: v",
        ]), proptest::sample::select(EXOTIC_BLANKS.to_vec())).prop_map(|(t, b)| t.replace(' ', b)),
        // many old-style entries (the deprecation warning gets one label per entry)
        1 => (6usize..14, proptest::bool::weighted(0.3)).prop_map(|(n, crlf)| (0..n).map(|i| format!(">> k{i}: v{i}")).collect::<Vec<_>>().join(if crlf { "\r\n" } else { "\n" })),
        1 => (proptest::sample::select(vec!["time", "prep time", "cook time", "servings", "tags", "author", "source", "locale", "title", "duration"]),
              proptest::sample::select(vec![">> ", ""]), metadata_value_strategy())
            .prop_map(|(k, pre, v)| format!("{pre}{k}: {v}")),
    ];
    // (no terminator: the line is glued to the next one, or the document ends without a line break)
    let nl = prop_oneof![6 => Just("\n"), 2 => Just("\r\n"), 1 => Just("\n\n"), 1 => Just("\r"), 1 => Just("")];
    (
        proptest::collection::vec((line, nl), 1..10),
        ext_strategy(),
        0u8..2,
    )
        .prop_map(|(lines, ext, conv)| {
            let mut pieces = vec![];
            for (l, n) in lines {
                pieces.push(l);
                pieces.push(n.to_string());
            }
            InputCase { pieces, ext, conv }
        })
}

/// reduced alphabet around components, for deeper exhaustive enumeration
pub const COMPONENT_ALPHABET: &[&str] = &[
    "@", "#", "~", "a", "é", "{", "}", "(", ")", "&", "|", "%", " ", "1", "=", "\n", "\u{a0}",
];

pub fn exhaustive_count_in(alpha: &[&str], len: u32) -> u64 {
    let a = alpha.len() as u64;
    (1..=len).map(|l| a.pow(l)).sum()
}

pub fn exhaustive_decode_in(alpha: &[&str], mut i: u64, len: u32) -> Vec<String> {
    let a = alpha.len() as u64;
    let mut l = 1;
    loop {
        let n = a.pow(l);
        if i < n {
            break;
        }
        i -= n;
        l += 1;
        assert!(l <= len);
    }
    let mut v = Vec::with_capacity(l as usize);
    for _ in 0..l {
        v.push(alpha[(i % a) as usize].to_string());
        i /= a;
    }
    v
}

/// number of sequences of length 1..=len over the alphabet
pub fn exhaustive_count(len: u32) -> u64 {
    let a = ALPHABET.len() as u64;
    (1..=len).map(|l| a.pow(l)).sum()
}

/// decode index -> sequence (shorter sequences first)
pub fn exhaustive_decode(mut i: u64, len: u32) -> Vec<String> {
    let a = ALPHABET.len() as u64;
    let mut l = 1;
    loop {
        let n = a.pow(l);
        if i < n {
            break;
        }
        i -= n;
        l += 1;
        assert!(l <= len);
    }
    let mut v = Vec::with_capacity(l as usize);
    for _ in 0..l {
        v.push(ALPHABET[(i % a) as usize].to_string());
        i /= a;
    }
    v
}
