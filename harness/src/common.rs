//! Shared machinery: seeds, statistics, evidence, replay files, known findings,
//! the multi-worker proptest driver and the hang watchdog.

use std::collections::hash_map::DefaultHasher;
use std::collections::{BTreeMap, HashSet};
use std::hash::{Hash, Hasher};
use std::path::PathBuf;
use std::sync::atomic::{AtomicBool, AtomicU64, Ordering};
use std::sync::{Arc, Mutex};
use std::time::{Duration, Instant};

use proptest::strategy::Strategy;
use proptest::test_runner::{Config, RngAlgorithm, TestCaseError, TestError, TestRunner};
use serde::de::DeserializeOwned;
use serde::Serialize;
use serde_json::{json, Value as J};

#[derive(Clone, Copy, PartialEq, Eq, Debug)]
pub enum Tier {
    Quick,
    Thorough,
}

impl Tier {
    pub fn name(self) -> &'static str {
        match self {
            Tier::Quick => "quick",
            Tier::Thorough => "thorough",
        }
    }
    /// pick a work amount by tier
    pub fn pick(self, quick: u64, thorough: u64) -> u64 {
        match self {
            Tier::Quick => quick,
            Tier::Thorough => thorough,
        }
    }
}

pub fn fnv(s: &str) -> u64 {
    let mut h: u64 = 0xcbf29ce484222325;
    for b in s.bytes() {
        h ^= b as u64;
        h = h.wrapping_mul(0x100000001b3);
    }
    h
}

pub fn hash_of<T: Hash + ?Sized>(t: &T) -> u64 {
    // DefaultHasher::new() uses fixed keys: stable within and across processes
    let mut h = DefaultHasher::new();
    t.hash(&mut h);
    h.finish()
}

pub fn verif_dir() -> PathBuf {
    PathBuf::from(std::env::var("VERIF_DIR").unwrap_or_else(|_| "/verif".to_string()))
}

/// where evidence/ and replays/ are written (default: the verif dir; overridden only by the
/// mutation-testing script so that it does not touch the committed evidence)
pub fn out_dir() -> PathBuf {
    std::env::var("VERIF_OUT").map(PathBuf::from).unwrap_or_else(|_| verif_dir())
}

pub fn repo_dir() -> PathBuf {
    PathBuf::from(std::env::var("VERIF_REPO").unwrap_or_else(|_| "/repo".to_string()))
}

// ---------------------------------------------------------------------------
// panic capture

thread_local! {
    static LAST_PANIC: std::cell::RefCell<Option<String>> = const { std::cell::RefCell::new(None) };
}

pub fn install_panic_hook() {
    std::panic::set_hook(Box::new(|info| {
        let loc = info
            .location()
            .map(|l| format!("{}:{}", l.file(), l.line()))
            .unwrap_or_else(|| "?".into());
        let msg = if let Some(s) = info.payload().downcast_ref::<&str>() {
            s.to_string()
        } else if let Some(s) = info.payload().downcast_ref::<String>() {
            s.clone()
        } else {
            "<non-string panic payload>".to_string()
        };
        LAST_PANIC.with(|p| *p.borrow_mut() = Some(format!("{msg} @ {loc}")));
        if std::env::var_os("VERIF_SHOW_PANICS").is_some() {
            eprintln!("[panic] {msg} @ {loc}");
        }
    }));
}

/// Runs `f`, converting a panic into `Err(message @ file:line)`.
pub fn guard<R>(f: impl FnOnce() -> R) -> Result<R, String> {
    LAST_PANIC.with(|p| *p.borrow_mut() = None);
    match std::panic::catch_unwind(std::panic::AssertUnwindSafe(f)) {
        Ok(r) => Ok(r),
        Err(_) => Err(LAST_PANIC
            .with(|p| p.borrow_mut().take())
            .unwrap_or_else(|| "panic (no message)".into())),
    }
}

// ---------------------------------------------------------------------------
// violations, known findings

/// A violation of the property found by an oracle.
#[derive(Debug, Clone)]
pub struct Violation {
    /// stable signature of the failing clause + call site; used to match known findings
    pub sig: String,
    /// human readable description
    pub msg: String,
}

impl Violation {
    pub fn new(sig: impl Into<String>, msg: impl Into<String>) -> Self {
        Self {
            sig: sig.into(),
            msg: msg.into(),
        }
    }
}

pub type Verdict = Result<(), Violation>;

#[macro_export]
macro_rules! vbail {
    ($sig:expr, $($arg:tt)*) => {
        return Err($crate::common::Violation::new($sig, format!($($arg)*)))
    };
}

#[macro_export]
macro_rules! vensure {
    ($cond:expr, $sig:expr, $($arg:tt)*) => {
        if !($cond) {
            return Err($crate::common::Violation::new($sig, format!($($arg)*)));
        }
    };
}

#[derive(Debug, Clone, serde::Deserialize)]
pub struct KnownFinding {
    pub property: String,
    /// "known" (still present, suppressed) or "fixed" (repaired, suppresses nothing)
    pub status: String,
    /// exact signature produced by the oracle
    pub signature: String,
    pub what: String,
    #[serde(default)]
    pub commit: Option<String>,
}

pub fn load_known(id: &str) -> Vec<KnownFinding> {
    let p = verif_dir().join("known_findings.json");
    let Ok(text) = std::fs::read_to_string(&p) else {
        return vec![];
    };
    let all: Vec<KnownFinding> = match serde_json::from_str::<J>(&text) {
        Ok(v) => serde_json::from_value(v.get("findings").cloned().unwrap_or(json!([])))
            .unwrap_or_default(),
        Err(e) => {
            eprintln!("[verif] known_findings.json unreadable: {e}");
            vec![]
        }
    };
    all.into_iter()
        .filter(|k| k.property == id && k.status == "known")
        .collect()
}

// ---------------------------------------------------------------------------
// statistics

#[derive(Default, Debug)]
pub struct Stats {
    pub evaluations: u64,
    pub nontrivial: HashSet<u64>,
    pub classes: BTreeMap<String, u64>,
    pub excluded: BTreeMap<String, u64>,
    pub samples: Vec<J>,
    pub known_hits: BTreeMap<String, u64>,
    /// non-trivial cases that are distinct by construction (enumerations): counted, not hashed
    pub nontrivial_counted: u64,
    sample_seen: u64,
}

impl Stats {
    pub fn eval(&mut self) {
        self.evaluations += 1;
    }
    pub fn evals(&mut self, n: u64) {
        self.evaluations += n;
    }
    pub fn nontrivial<T: Hash + ?Sized>(&mut self, t: &T) {
        self.nontrivial.insert(hash_of(t));
    }
    pub fn class(&mut self, c: &str) {
        *self.classes.entry(c.to_string()).or_insert(0) += 1;
    }
    pub fn class_if(&mut self, cond: bool, c: &str) {
        if cond {
            self.class(c)
        }
    }
    pub fn exclude(&mut self, c: &str) {
        *self.excluded.entry(c.to_string()).or_insert(0) += 1;
    }
    /// offer a case as a sample: keeps the 1st, 2nd, 10th, 100th, 1000th ... offered
    pub fn sample(&mut self, f: impl FnOnce() -> J) {
        self.sample_seen += 1;
        let n = self.sample_seen;
        let keep = n <= 2 || matches!(n, 10 | 100 | 1000 | 10_000 | 100_000 | 1_000_000);
        if keep && self.samples.len() < 12 {
            self.samples.push(f());
        }
    }
    pub fn merge(&mut self, o: Stats) {
        self.evaluations += o.evaluations;
        self.nontrivial.extend(o.nontrivial);
        self.nontrivial_counted += o.nontrivial_counted;
        for (k, v) in o.classes {
            *self.classes.entry(k).or_insert(0) += v;
        }
        for (k, v) in o.excluded {
            *self.excluded.entry(k).or_insert(0) += v;
        }
        for (k, v) in o.known_hits {
            *self.known_hits.entry(k).or_insert(0) += v;
        }
        for s in o.samples {
            if self.samples.len() < 12 {
                self.samples.push(s);
            }
        }
    }
}

// ---------------------------------------------------------------------------
// run context + evidence

pub struct Failure {
    pub part: String,
    pub sig: String,
    pub msg: String,
    pub case: J,
}

pub struct Run {
    pub id: &'static str,
    pub tier: Tier,
    pub seed: u64,
    pub workers: usize,
    pub start: Instant,
    pub known: Vec<KnownFinding>,
    pub strict: bool,
    parts: Vec<(String, J)>,
    total: Stats,
    failures: Vec<Failure>,
    rules: Vec<String>,
    assumptions: Vec<String>,
    exhaustive_parts: Vec<String>,
    inconclusive: Option<String>,
}

/// the surroundings of the first byte at which two images differ
pub fn first_diff(a: &str, b: &str) -> String {
    let i = a.bytes().zip(b.bytes()).position(|(x, y)| x != y).unwrap_or(a.len().min(b.len()));
    let cut = |s: &str| {
        let mut from = i.saturating_sub(120);
        while !s.is_char_boundary(from) {
            from -= 1;
        }
        let mut to = (i + 200).min(s.len());
        while !s.is_char_boundary(to) {
            to -= 1;
        }
        s[from..to].to_string()
    };
    format!("first difference at byte {i}:\n   A: …{}…\n   B: …{}…", cut(a), cut(b))
}

pub fn truncate(s: &str, n: usize) -> String {
    if s.len() <= n {
        s.to_string()
    } else {
        let mut end = n;
        while !s.is_char_boundary(end) {
            end -= 1;
        }
        format!("{}…[{} bytes]", &s[..end], s.len())
    }
}

impl Run {
    pub fn new(id: &'static str, tier: Tier) -> Self {
        let seed = std::env::var("VERIF_SEED")
            .ok()
            .and_then(|s| s.parse::<i64>().ok())
            .unwrap_or(0) as u64;
        let workers = std::env::var("VERIF_WORKERS")
            .ok()
            .and_then(|s| s.parse().ok())
            .unwrap_or_else(|| {
                std::thread::available_parallelism()
                    .map(|n| n.get())
                    .unwrap_or(4)
                    .min(16)
            });
        Run {
            id,
            tier,
            seed,
            workers,
            start: Instant::now(),
            known: load_known(id),
            strict: false,
            parts: vec![],
            total: Stats::default(),
            failures: vec![],
            rules: vec![],
            assumptions: vec![],
            exhaustive_parts: vec![],
            inconclusive: None,
        }
    }

    pub fn assume(&mut self, s: &str) {
        self.assumptions.push(s.to_string());
    }

    pub fn failed(&self) -> bool {
        !self.failures.is_empty()
    }

    pub fn seed_for(&self, part: &str, worker: usize) -> u64 {
        self.seed
            ^ fnv(self.id).rotate_left(7)
            ^ fnv(part).rotate_left(23)
            ^ (worker as u64).wrapping_mul(0x9E3779B97F4A7C15)
    }

    /// Is this violation listed as a known finding? (never in strict/replay mode)
    pub fn is_known(&self, v: &Violation) -> bool {
        !self.strict && self.known.iter().any(|k| k.signature == v.sig)
    }

    /// Record the statistics of a finished part.
    pub fn add_part(&mut self, part: &str, rule: &str, stats: Stats, exhaustive: bool) {
        let j = json!({
            "evaluations": stats.evaluations,
            "distinct_nontrivial": stats.nontrivial.len() as u64 + stats.nontrivial_counted,
            "rule": rule,
            "classes": stats.classes,
            "excluded": stats.excluded,
            "known_finding_hits": stats.known_hits,
            "exhaustive": exhaustive,
        });
        self.parts.push((part.to_string(), j));
        self.rules.push(format!("[{part}] {rule}"));
        if exhaustive {
            self.exhaustive_parts.push(part.to_string());
        }
        // namespace the non-trivial hashes per part so equal cases of different parts stay distinct
        let salt = fnv(part);
        let mut s = stats;
        s.nontrivial = s.nontrivial.into_iter().map(|h| h ^ salt).collect();
        let samples = std::mem::take(&mut s.samples);
        for smp in samples.into_iter().take(4) {
            self.total.samples.push(json!({"part": part, "case": smp}));
        }
        self.total.merge(s);
    }

    pub fn fail(&mut self, part: &str, v: Violation, case: J) {
        self.failures.push(Failure {
            part: part.to_string(),
            sig: v.sig,
            msg: v.msg,
            case,
        });
    }

    pub fn set_inconclusive(&mut self, why: String) {
        self.inconclusive = Some(why);
    }

    /// Replays the committed regression cases of this property through `f` (strict: known findings
    /// are not suppressed unless still listed as known).
    pub fn replay_regressions(&mut self, f: &dyn Fn(&str, &J) -> Verdict) {
        let dir = verif_dir().join("regress").join(self.id);
        let Ok(rd) = std::fs::read_dir(&dir) else {
            return;
        };
        let mut files: Vec<_> = rd.filter_map(|e| e.ok()).map(|e| e.path()).collect();
        files.sort();
        let mut stats = Stats::default();
        for p in files {
            if p.extension().and_then(|e| e.to_str()) != Some("json") {
                continue;
            }
            let Ok(text) = std::fs::read_to_string(&p) else {
                continue;
            };
            let Ok(j) = serde_json::from_str::<J>(&text) else {
                eprintln!("[verif] unreadable regression file {}", p.display());
                continue;
            };
            let part = j.get("part").and_then(|v| v.as_str()).unwrap_or("").to_string();
            let case = j.get("case").cloned().unwrap_or(J::Null);
            stats.eval();
            stats.nontrivial(&text);
            match guard(|| f(&part, &case)) {
                Ok(Ok(())) => {}
                Ok(Err(v)) => {
                    if self.is_known(&v) {
                        *stats.known_hits.entry(v.sig.clone()).or_insert(0) += 1;
                    } else {
                        let mut v = v;
                        v.msg = format!("regression case {} fails again: {}", p.display(), v.msg);
                        self.fail(&part, v, case);
                    }
                }
                Err(p) => {
                    self.fail(
                        &part,
                        Violation::new("harness-panic", format!("oracle panicked on regression case: {p}")),
                        case,
                    );
                }
            }
        }
        if stats.evaluations > 0 {
            self.add_part(
                "regress",
                "committed minimal failures of earlier runs, replayed through the plain oracle",
                stats,
                false,
            );
        }
    }

    /// Writes evidence, prints KNOWN-FINDING / VIOLATION lines, returns the process exit code.
    pub fn finish(mut self) -> i32 {
        let wall = self.start.elapsed().as_secs_f64();
        let vd = out_dir();
        let mut violation_lines = vec![];
        let _ = std::fs::create_dir_all(vd.join("replays"));
        for (i, f) in self.failures.iter().enumerate() {
            let path = vd
                .join("replays")
                .join(format!("{}-{}-{}.json", self.id, f.part.replace('/', "_"), i));
            let body = json!({
                "property": self.id,
                "part": f.part,
                "signature": f.sig,
                "message": f.msg,
                "seed": self.seed,
                "tier": self.tier.name(),
                "case": f.case,
            });
            let _ = std::fs::write(&path, serde_json::to_string_pretty(&body).unwrap());
            violation_lines.push((path, f));
        }
        // known findings: one line per listed finding that was hit (or, if not hit, still listed)
        let mut known_lines = vec![];
        for k in &self.known {
            let hits = self.total.known_hits.get(&k.signature).copied().unwrap_or(0);
            known_lines.push(format!(
                "KNOWN-FINDING: property={} {} [signature={} hits={}]",
                self.id, k.what, k.signature, hits
            ));
        }

        let parts: serde_json::Map<String, J> = self.parts.drain(..).collect();
        let mut samples = std::mem::take(&mut self.total.samples);
        if samples.is_empty() {
            samples.push(json!("(no sample recorded)"));
        }
        let distinct = self.total.nontrivial.len() as u64 + self.total.nontrivial_counted;
        let exhaustive_all = !self.exhaustive_parts.is_empty()
            && self.exhaustive_parts.len() == parts.iter().filter(|(k, _)| k.as_str() != "regress").count();
        let evidence = json!({
            "property_id": self.id,
            "tier": self.tier.name(),
            "seed": self.seed as i64,
            "level": "exploration",
            "coverage": {
                "evaluations": self.total.evaluations,
                "distinct_nontrivial": distinct,
                "rule": self.rules.join(" || "),
                "samples": samples,
                "classes": self.total.classes,
                "excluded": self.total.excluded,
                "parts": parts,
                "exhaustive": exhaustive_all,
                "exhaustive_parts": self.exhaustive_parts,
                "known_finding_hits": self.total.known_hits,
                "workers": self.workers,
                "profile": if cfg!(debug_assertions) { "checked (opt-level 2, debug-assertions, overflow-checks)" } else { "fast (opt-level 3, no assertions)" },
                "inconclusive": self.inconclusive,
            },
            "assumptions": self.assumptions,
            "wall_s": wall,
            "violations": self.failures.len(),
        });
        let ev_path = vd.join("evidence").join(format!("{}.json", self.id));
        let _ = std::fs::create_dir_all(vd.join("evidence"));
        if !self.strict {
            if let Err(e) = std::fs::write(&ev_path, serde_json::to_string_pretty(&evidence).unwrap()) {
                eprintln!("[verif] cannot write evidence {}: {e}", ev_path.display());
                return 2;
            }
        }
        for l in known_lines {
            println!("{l}");
        }
        if survey_on() {
            for (sig, (n, msg, case)) in SURVEY.lock().unwrap().iter() {
                println!("SURVEY {sig} x{n}\n    {}\n    case: {}", truncate(msg, 600), truncate(case, 600));
            }
        }
        for (path, f) in &violation_lines {
            println!(
                "[{}] part={} signature={} :: {}",
                self.id,
                f.part,
                f.sig,
                truncate(&f.msg, 1500)
            );
            println!("VIOLATION property={} replay={}", self.id, path.display());
        }
        println!(
            "[{}] {} seed={} evaluations={} distinct_nontrivial={} violations={} wall={:.1}s",
            self.id,
            self.tier.name(),
            self.seed,
            self.total.evaluations,
            distinct,
            self.failures.len(),
            wall
        );
        if !self.failures.is_empty() {
            1
        } else if let Some(why) = &self.inconclusive {
            eprintln!("[verif] inconclusive: {why}");
            2
        } else {
            0
        }
    }
}

// ---------------------------------------------------------------------------
// watchdog

struct Slot {
    started: Option<Instant>,
    case: Option<String>,
}

pub struct Watchdog {
    slots: Arc<Vec<Mutex<Slot>>>,
    stop: Arc<AtomicBool>,
    pub hung: Arc<Mutex<Option<String>>>,
}

pub const HANG_DEADLINE: Duration = Duration::from_secs(20);

impl Watchdog {
    pub fn start(n: usize, part: &str) -> Self {
        let part = part.to_string();
        let slots: Arc<Vec<Mutex<Slot>>> = Arc::new(
            (0..n)
                .map(|_| {
                    Mutex::new(Slot {
                        started: None,
                        case: None,
                    })
                })
                .collect(),
        );
        let stop = Arc::new(AtomicBool::new(false));
        let hung = Arc::new(Mutex::new(None));
        {
            let slots = slots.clone();
            let stop = stop.clone();
            let hung = hung.clone();
            std::thread::spawn(move || {
                while !stop.load(Ordering::Relaxed) {
                    std::thread::sleep(Duration::from_millis(500));
                    for s in slots.iter() {
                        let s = s.lock().unwrap();
                        if let Some(t) = s.started {
                            if t.elapsed() > HANG_DEADLINE {
                                let mut h = hung.lock().unwrap();
                                if h.is_none() {
                                    *h = Some(s.case.clone().unwrap_or_default());
                                }
                            }
                        }
                    }
                    if hung.lock().unwrap().is_some() {
                        // a worker is stuck inside the code under test; it cannot be cancelled.
                        // Report and terminate the process from here.
                        let case = hung.lock().unwrap().clone().unwrap();
                        let vd = out_dir();
                        let _ = std::fs::create_dir_all(vd.join("replays"));
                        let path = vd.join("replays").join("hang.json");
                        let case_j: J = serde_json::from_str(&case).unwrap_or(J::String(case.clone()));
                        let body = json!({
                            "property": HANG_PROPERTY.lock().unwrap().clone(),
                            "part": part,
                            "signature": "hang",
                            "message": "case did not return within the deadline",
                            "case": case_j,
                        });
                        let _ = std::fs::write(&path, serde_json::to_string_pretty(&body).unwrap());
                        if HANG_IS_VIOLATION.load(Ordering::Relaxed) {
                            let id = HANG_PROPERTY.lock().unwrap().clone();
                            println!(
                                "[{id}] a case did not return within {}s (normal cost < 1 ms); input saved",
                                HANG_DEADLINE.as_secs()
                            );
                            println!("VIOLATION property={id} replay={}", path.display());
                            std::process::exit(1);
                        } else {
                            eprintln!(
                                "[verif] a case exceeded the {}s deadline -> inconclusive (saved to {})",
                                HANG_DEADLINE.as_secs(),
                                path.display()
                            );
                            std::process::exit(2);
                        }
                    }
                }
            });
        }
        Watchdog { slots, stop, hung }
    }

    pub fn enter(&self, worker: usize, case: impl FnOnce() -> String) {
        let mut s = self.slots[worker].lock().unwrap();
        s.started = Some(Instant::now());
        s.case = Some(case());
    }
    pub fn leave(&self, worker: usize) {
        let mut s = self.slots[worker].lock().unwrap();
        s.started = None;
        s.case = None;
    }
}

impl Drop for Watchdog {
    fn drop(&mut self) {
        self.stop.store(true, Ordering::Relaxed);
    }
}

pub static HANG_IS_VIOLATION: AtomicBool = AtomicBool::new(false);
/// development aid (VERIF_SURVEY=1): do not stop at violations, collect one example per signature
pub static SURVEY: Mutex<BTreeMap<String, (u64, String, String)>> = Mutex::new(BTreeMap::new());
pub fn survey_on() -> bool {
    std::env::var_os("VERIF_SURVEY").is_some()
}
fn survey_record(v: &Violation, case: impl FnOnce() -> String) {
    let mut m = SURVEY.lock().unwrap();
    let e = m.entry(v.sig.clone()).or_insert_with(|| (0, v.msg.clone(), case()));
    e.0 += 1;
}
pub static HANG_PROPERTY: Mutex<String> = Mutex::new(String::new());

// ---------------------------------------------------------------------------
// proptest driver

pub struct PropCfg {
    pub cases: u64,
    pub max_shrink_iters: u32,
}

/// Runs `check` on `cases` generated values split over the run's workers. Each worker owns a
/// `TestRunner` with a seed derived from (VERIF_SEED, property, part, worker). On failure the
/// case is shrunk by proptest and recorded in `run`. Known findings are counted and skipped.
pub fn run_prop<T, S>(
    run: &mut Run,
    part: &str,
    rule: &str,
    make_strategy: impl Fn() -> S + Sync,
    cases: u64,
    check: impl Fn(&T, &mut Stats) -> Verdict + Sync,
) where
    T: std::fmt::Debug + Clone + Serialize + DeserializeOwned + Send,
    S: Strategy<Value = T>,
{
    let workers = run.workers.max(1).min(cases.max(1) as usize);
    let per = cases.div_ceil(workers as u64);
    let wd = Watchdog::start(workers, part);
    let known: Vec<String> = if run.strict {
        vec![]
    } else {
        run.known.iter().map(|k| k.signature.clone()).collect()
    };
    let stop_all = AtomicBool::new(false);
    let results: Vec<(Stats, Option<(Violation, J)>)> = std::thread::scope(|scope| {
        let mut handles = vec![];
        for w in 0..workers {
            let make_strategy = &make_strategy;
            let check = &check;
            let wd = &wd;
            let known = &known;
            let stop_all = &stop_all;
            let seed = run.seed_for(part, w);
            handles.push(scope.spawn(move || {
                let strategy = make_strategy();
                let mut seed_bytes = [0u8; 32];
                for (i, chunk) in seed_bytes.chunks_mut(8).enumerate() {
                    let v = seed
                        .wrapping_add(i as u64)
                        .wrapping_mul(0x9E3779B97F4A7C15)
                        .rotate_left(17 * (i as u32 + 1));
                    chunk.copy_from_slice(&v.to_le_bytes());
                }
                let cfg = Config {
                    cases: per as u32,
                    failure_persistence: None,
                    max_shrink_iters: 4000,
                    max_global_rejects: 1 << 20,
                    max_local_rejects: 1 << 16,
                    rng_algorithm: RngAlgorithm::ChaCha,
                    ..Config::default()
                };
                let rng = proptest::test_runner::TestRng::from_seed(RngAlgorithm::ChaCha, &seed_bytes);
                let mut runner = TestRunner::new_with_rng(cfg, rng);
                let stats = Mutex::new(Stats::default());
                let failed = AtomicBool::new(false);
                let last_violation: Mutex<Option<Violation>> = Mutex::new(None);
                let res = runner.run(&strategy, |case: T| {
                    if stop_all.load(Ordering::Relaxed) && !failed.load(Ordering::Relaxed) {
                        // another worker already failed: finish quickly
                        return Ok(());
                    }
                    let mut scratch = Stats::default();
                    let counting = !failed.load(Ordering::Relaxed);
                    wd.enter(w, || {
                        serde_json::to_string(&case).unwrap_or_else(|_| format!("{case:?}"))
                    });
                    let r = guard(|| check(&case, &mut scratch));
                    wd.leave(w);
                    let verdict = match r {
                        Ok(v) => v,
                        Err(p) => Err(Violation::new(
                            "harness-panic",
                            format!("the oracle itself panicked: {p}"),
                        )),
                    };
                    if counting {
                        let mut st = stats.lock().unwrap();
                        st.eval();
                        st.merge(scratch);
                    }
                    match verdict {
                        Ok(()) => Ok(()),
                        Err(v) => {
                            if survey_on() {
                                survey_record(&v, || serde_json::to_string(&case).unwrap_or_default());
                                return Ok(());
                            }
                            if known.iter().any(|k| *k == v.sig) {
                                if counting {
                                    *stats
                                        .lock()
                                        .unwrap()
                                        .known_hits
                                        .entry(v.sig.clone())
                                        .or_insert(0) += 1;
                                }
                                return Ok(());
                            }
                            failed.store(true, Ordering::Relaxed);
                            stop_all.store(true, Ordering::Relaxed);
                            let msg = format!("{} :: {}", v.sig, v.msg);
                            *last_violation.lock().unwrap() = Some(v);
                            Err(TestCaseError::fail(msg))
                        }
                    }
                });
                let stats = stats.into_inner().unwrap();
                match res {
                    Ok(()) => (stats, None),
                    Err(TestError::Fail(_, minimal)) => {
                        // re-run the oracle on the minimal case to get its own signature/message
                        let mut scratch = Stats::default();
                        let v = match guard(|| check(&minimal, &mut scratch)) {
                            Ok(Err(v)) => v,
                            Ok(Ok(())) => last_violation.into_inner().unwrap().unwrap_or_else(|| {
                                Violation::new("flaky", "minimal case passes on re-run")
                            }),
                            Err(p) => Violation::new("harness-panic", p),
                        };
                        let j = serde_json::to_value(&minimal).unwrap_or(J::Null);
                        (stats, Some((v, j)))
                    }
                    Err(TestError::Abort(r)) => {
                        let mut st = stats;
                        st.exclude(&format!("proptest-abort: {r}"));
                        (st, None)
                    }
                }
            }));
        }
        handles.into_iter().map(|h| h.join().unwrap()).collect()
    });
    drop(wd);
    let mut total = Stats::default();
    let mut first_fail = None;
    for (st, f) in results {
        total.merge(st);
        if first_fail.is_none() {
            first_fail = f;
        }
    }
    run.add_part(part, rule, total, false);
    if let Some((v, case)) = first_fail {
        run.fail(part, v, case);
    }
}

/// Exhaustive / indexed enumeration: `n` items are split over the workers; `check(i, stats)`.
pub fn run_indexed(
    run: &mut Run,
    part: &str,
    rule: &str,
    n: u64,
    exhaustive: bool,
    describe: impl Fn(u64) -> J + Sync,
    check: impl Fn(u64, &mut Stats) -> Verdict + Sync,
) {
    let workers = run.workers.max(1).min(n.max(1) as usize);
    let wd = Watchdog::start(workers, part);
    let known: Vec<String> = if run.strict {
        vec![]
    } else {
        run.known.iter().map(|k| k.signature.clone()).collect()
    };
    let next = AtomicU64::new(0);
    let stop = AtomicBool::new(false);
    const CHUNK: u64 = 256;
    let results: Vec<(Stats, Option<(u64, Violation)>)> = std::thread::scope(|scope| {
        let mut hs = vec![];
        for w in 0..workers {
            let (next, stop, wd, check, known, describe) = (&next, &stop, &wd, &check, &known, &describe);
            hs.push(scope.spawn(move || {
                let mut st = Stats::default();
                let mut fail: Option<(u64, Violation)> = None;
                'outer: loop {
                    let base = next.fetch_add(CHUNK, Ordering::Relaxed);
                    if base >= n || stop.load(Ordering::Relaxed) {
                        break;
                    }
                    for i in base..(base + CHUNK).min(n) {
                        wd.enter(w, || describe(i).to_string());
                        let r = guard(|| check(i, &mut st));
                        wd.leave(w);
                        st.eval();
                        let verdict = match r {
                            Ok(v) => v,
                            Err(p) => Err(Violation::new("harness-panic", format!("oracle panicked: {p}"))),
                        };
                        if let Err(v) = verdict {
                            if survey_on() {
                                survey_record(&v, || describe(i).to_string());
                                continue;
                            }
                            if known.iter().any(|k| *k == v.sig) {
                                *st.known_hits.entry(v.sig.clone()).or_insert(0) += 1;
                                continue;
                            }
                            fail = Some((i, v));
                            stop.store(true, Ordering::Relaxed);
                            break 'outer;
                        }
                    }
                }
                (st, fail)
            }));
        }
        hs.into_iter().map(|h| h.join().unwrap()).collect()
    });
    drop(wd);
    let mut total = Stats::default();
    let mut fails: Vec<(u64, Violation)> = vec![];
    for (st, f) in results {
        total.merge(st);
        if let Some(f) = f {
            fails.push(f);
        }
    }
    // smallest index first: enumeration order is by size, so this is the minimal one found
    fails.sort_by_key(|f| f.0);
    let complete = fails.is_empty();
    run.add_part(part, rule, total, exhaustive && complete);
    if let Some((i, v)) = fails.into_iter().next() {
        run.fail(part, v, describe(i));
    }
}

/// Deserialize a replay case.
pub fn case_from<T: DeserializeOwned>(j: &J) -> Result<T, Violation> {
    serde_json::from_value(j.clone())
        .map_err(|e| Violation::new("replay-format", format!("cannot decode replay case: {e}")))
}

pub fn approx_eq(a: f64, b: f64, rel: f64, abs: f64) -> bool {
    if a == b {
        return true;
    }
    if !a.is_finite() || !b.is_finite() {
        return false;
    }
    let d = (a - b).abs();
    d <= abs || d <= rel * a.abs().max(b.abs())
}
