//! C09 — unit conversion preserves the physical amount.

use std::sync::Arc;

use cooklang::convert::{ConvertError, ConvertTo, ConvertUnit, ConvertValue, PhysicalQuantity, System, Unit};
use cooklang::quantity::{Number, Quantity, ScaledQuantity, Value};
use proptest::prelude::*;
use serde::{Deserialize, Serialize};
use serde_json::json;

use crate::common::*;
use crate::pipeline::BUNDLED;
use crate::{vbail, vensure};

const GAL: f64 = 3.785411784; // litres, US liquid gallon (exact by definition)

/// Real-world definitions, keyed by the first name of the unit: (quantity, size in base units
/// [litre, metre, gram, second, kelvin-per-degree], offset to absolute zero in own degrees)
pub fn reference(name: &str) -> Option<(PhysicalQuantity, f64, f64)> {
    use PhysicalQuantity::*;
    let si = |base: &str, q: PhysicalQuantity| -> Option<(PhysicalQuantity, f64, f64)> {
        for (p, r) in [("kilo", 1e3), ("hecto", 1e2), ("deca", 1e1), ("deci", 1e-1), ("centi", 1e-2), ("milli", 1e-3)] {
            if name.strip_prefix(p) == Some(base) {
                return Some((q, r, 0.0));
            }
        }
        None
    };
    Some(match name {
        "liter" => (Volume, 1.0, 0.0),
        "teaspoon" => (Volume, GAL / 768.0, 0.0),
        "tablespoon" => (Volume, GAL / 256.0, 0.0),
        "fluid ounce" => (Volume, GAL / 128.0, 0.0),
        "cup" => (Volume, GAL / 16.0, 0.0),
        "pint" => (Volume, GAL / 8.0, 0.0),
        "quart" => (Volume, GAL / 4.0, 0.0),
        "gallon" => (Volume, GAL, 0.0),
        "meter" => (Length, 1.0, 0.0),
        "foot" => (Length, 0.3048, 0.0),
        "inch" => (Length, 0.0254, 0.0),
        "gram" => (Mass, 1.0, 0.0),
        "ounce" => (Mass, 28.349523125, 0.0),
        "pound" => (Mass, 453.59237, 0.0),
        "second" => (Time, 1.0, 0.0),
        "minute" => (Time, 60.0, 0.0),
        "hour" => (Time, 3600.0, 0.0),
        "day" => (Time, 86400.0, 0.0),
        "celsius" => (Temperature, 1.0, 273.15),
        "fahrenheit" => (Temperature, 5.0 / 9.0, 459.67),
        _ => return si("liter", Volume).or_else(|| si("meter", Length)).or_else(|| si("gram", Mass)),
    })
}

fn ref_convert(v: f64, from: (PhysicalQuantity, f64, f64), to: (PhysicalQuantity, f64, f64)) -> f64 {
    (v + from.2) * from.1 / to.1 - to.2
}

struct UnitInfo {
    unit: Arc<Unit>,
    keys: Vec<String>,
    refr: (PhysicalQuantity, f64, f64),
}

fn known_units(st: &mut Stats) -> Vec<UnitInfo> {
    let mut out = vec![];
    for u in BUNDLED.all_units() {
        let name = u.names.first().map(|s| s.to_string()).unwrap_or_default();
        match reference(&name) {
            Some(r) => {
                let keys: Vec<String> = u.names.iter().chain(&u.symbols).chain(&u.aliases).map(|k| k.to_string()).collect();
                let arc = BUNDLED.find_unit(&keys[0]).expect("unit findable by its first name");
                out.push(UnitInfo { unit: arc, keys, refr: r });
            }
            None => st.exclude(&format!("unit without a reference definition in the harness: {name}")),
        }
    }
    out
}

fn tol(q: PhysicalQuantity, expected: f64) -> (f64, f64) {
    // shipped ratios are cut to 9 decimals (worst: teaspoon, 1.2e-7 relative)
    match q {
        PhysicalQuantity::Temperature => (1e-9, 1e-6),
        PhysicalQuantity::Volume => (2.5e-7, 1e-12 + expected.abs() * 0.0),
        _ => (1e-12, 1e-12),
    }
}

const GRID: [f64; 12] = [0.0, 1e-3, 0.25, 0.5, 1.0, 2.5, 3.0, 100.0, 180.0, 1e4, -18.0, -1500.0];

fn amount(q: &ScaledQuantity, info: &UnitInfo) -> Option<(f64, f64)> {
    // physical amount (absolute, in base units) of a numeric / range quantity in unit `info`
    // measured with the converter's own unit definition (those are checked against the reference separately)
    let f = |n: &Number| (n.value() + info.unit.difference) * info.unit.ratio;
    match q.value() {
        Value::Number(n) => Some((f(n), f(n))),
        Value::Range { start, end } => Some((f(start), f(end))),
        Value::Text(_) => None,
    }
}

fn find<'a>(units: &'a [UnitInfo], key: &str) -> Option<&'a UnitInfo> {
    units.iter().find(|u| u.keys.iter().any(|k| k == key))
}

fn check_pair(units: &[UnitInfo], a: usize, b: usize, ka: usize, kb: usize, v: f64, st: &mut Stats) -> Verdict {
    let (ua, ub) = (&units[a], &units[b]);
    let (key_a, key_b) = (&ua.keys[ka % ua.keys.len()], &ub.keys[kb % ub.keys.len()]);
    let same_q = ua.refr.0 == ub.refr.0;
    // through Converter::convert
    let r = guard(|| BUNDLED.convert(ConvertValue::Number(v), ConvertUnit::Key(key_a), ConvertTo::Unit(ConvertUnit::Key(key_b))));
    let r = match r {
        Ok(r) => r,
        Err(p) => vbail!("c09.panic.convert", "convert({v}, {key_a:?} -> {key_b:?}) panicked: {p}"),
    };
    // through ScaledQuantity::convert
    let mut q = Quantity::new(Value::from(v), Some(key_a.clone()));
    let before = q.clone();
    let rq = match guard(|| q.convert(key_b.as_str(), &BUNDLED)) {
        Ok(r) => r,
        Err(p) => vbail!("c09.panic.quantity-convert", "Quantity({v} {key_a}).convert({key_b:?}) panicked: {p}"),
    };
    if !same_q {
        st.class("cross-quantity");
        vensure!(
            matches!(r, Err(ConvertError::MixedQuantities { .. })),
            "c09.cross-quantity-accepted",
            "converting {v} {key_a} to {key_b} (different physical quantities) returned {r:?}"
        );
        vensure!(
            matches!(rq, Err(ConvertError::MixedQuantities { .. })) && q == before && serde_json::to_string(&q).unwrap() == serde_json::to_string(&before).unwrap(),
            "c09.failed-conversion-mutated",
            "Quantity({v} {key_a}).convert({key_b:?}) returned {rq:?} and left {q:?}"
        );
        return Ok(());
    }
    st.class("same-quantity");
    st.nontrivial(&(a, b, ka, kb, v.to_bits()));
    let expected = ref_convert(v, ua.refr, ub.refr);
    let (rel, abs) = tol(ua.refr.0, expected);
    let (cv, cu) = match r {
        Ok(x) => x,
        Err(e) => vbail!("c09.same-quantity-rejected", "convert({v} {key_a} -> {key_b}) failed: {e}"),
    };
    let ConvertValue::Number(got) = cv else {
        vbail!("c09.value-kind", "number converted into {cv:?}");
    };
    vensure!(Arc::ptr_eq(&cu, &ub.unit) || *cu == *ub.unit, "c09.wrong-target-unit", "converted to unit {cu} instead of {key_b}");
    vensure!(
        approx_eq(got, expected, rel, abs),
        "c09.amount-wrong",
        "{v} {key_a} -> {key_b}: got {got:e}, standard definitions give {expected:e} (units {} -> {})",
        ua.unit.names[0],
        ub.unit.names[0]
    );
    vensure!(rq.is_ok(), "c09.same-quantity-rejected", "Quantity({v} {key_a}).convert({key_b}) failed: {rq:?}");
    let Some((lo, hi)) = amount(&q, ub) else { vbail!("c09.value-kind", "converted quantity is text: {q:?}") };
    let exp_abs = (v + ua.unit.difference) * ua.unit.ratio;
    vensure!(
        approx_eq(lo, exp_abs, rel.max(1e-9), abs.max(1e-9)) && lo == hi,
        "c09.quantity-amount-wrong",
        "Quantity({v} {key_a}).convert({key_b}) = {q:?}: amount {lo:e} base units, expected {exp_abs:e}"
    );
    vensure!(
        q.unit().and_then(|u| find(units, u)).is_some_and(|u| std::ptr::eq(u, ub)),
        "c09.wrong-target-unit",
        "Quantity converted to {key_b} has unit {:?}",
        q.unit()
    );
    // there and back
    let back = BUNDLED
        .convert(ConvertValue::Number(got), ConvertUnit::Key(key_b), ConvertTo::Unit(ConvertUnit::Key(key_a)))
        .map_err(|e| Violation::new("c09.same-quantity-rejected", format!("back conversion failed: {e}")))?;
    let ConvertValue::Number(back) = back.0 else { unreachable!() };
    vensure!(
        approx_eq(back, v, 1e-9, 1e-9 * (1.0 + ua.refr.2)),
        "c09.there-and-back",
        "{v} {key_a} -> {key_b} -> {key_a} = {back:e}"
    );
    Ok(())
}

fn check_triple(units: &[UnitInfo], a: usize, b: usize, c: usize, v: f64, st: &mut Stats) -> Verdict {
    let (ua, ub, uc) = (&units[a], &units[b], &units[c]);
    if ua.refr.0 != ub.refr.0 || ua.refr.0 != uc.refr.0 {
        return Ok(());
    }
    st.nontrivial(&(a, b, c, v.to_bits()));
    let conv = |v: f64, f: &UnitInfo, t: &UnitInfo| -> Result<f64, Violation> {
        match guard(|| BUNDLED.convert(ConvertValue::Number(v), ConvertUnit::Unit(&f.unit), ConvertTo::Unit(ConvertUnit::Unit(&t.unit)))) {
            Ok(Ok((ConvertValue::Number(x), _))) => Ok(x),
            Ok(other) => Err(Violation::new("c09.same-quantity-rejected", format!("{other:?}"))),
            Err(p) => Err(Violation::new("c09.panic.convert", p)),
        }
    };
    let direct = conv(v, ua, ub)?;
    let via = conv(conv(v, ua, uc)?, uc, ub)?;
    vensure!(
        approx_eq(direct, via, 1e-9, 1e-9 * (1.0 + ub.refr.2)),
        "c09.via-third-unit",
        "{v} {} -> {}: direct {direct:e}, via {} {via:e}",
        ua.keys[0],
        ub.keys[0],
        uc.keys[0]
    );
    Ok(())
}

#[derive(Debug, Clone, Serialize, Deserialize)]
pub struct SysCase {
    pub unit: usize,
    pub key: usize,
    pub start_bits: u64,
    pub end_bits: Option<u64>,
    /// 0 metric, 1 imperial, 2 fit()
    pub target: u8,
}

fn check_system(units: &[UnitInfo], c: &SysCase, st: &mut Stats) -> Verdict {
    let u = &units[c.unit % units.len()];
    let key = &u.keys[c.key % u.keys.len()];
    let (s, e) = (f64::from_bits(c.start_bits), c.end_bits.map(f64::from_bits));
    let value = match e {
        Some(e) => Value::Range { start: Number::Regular(s), end: Number::Regular(e) },
        None => Value::from(s),
    };
    let mut q = Quantity::new(value, Some(key.clone()));
    let before = q.clone();
    let Some((lo0, hi0)) = amount(&before, u) else { unreachable!() };
    let (r, what, system) = match c.target % 3 {
        0 => (guard(|| q.convert(System::Metric, &BUNDLED)), "convert(Metric)", Some(System::Metric)),
        1 => (guard(|| q.convert(System::Imperial, &BUNDLED)), "convert(Imperial)", Some(System::Imperial)),
        _ => (guard(|| q.fit(&BUNDLED)), "fit()", u.unit.system),
    };
    let r = match r {
        Ok(r) => r,
        Err(p) => vbail!("c09.panic.system", "{before:?}.{what} panicked: {p}"),
    };
    vensure!(r.is_ok(), "c09.system-conversion-failed", "{before:?}.{what} failed: {r:?}");
    st.nontrivial(&(c.unit % units.len(), c.key % u.keys.len(), c.start_bits, c.end_bits, c.target % 3));
    st.class(what);
    st.class_if(e.is_some(), "range");
    let Some(nu) = q.unit().and_then(|k| find(units, k)) else {
        vbail!("c09.system-unit-unknown", "{before:?}.{what} gave {q:?} whose unit is not a known unit");
    };
    vensure!(nu.refr.0 == u.refr.0, "c09.system-changed-quantity", "{before:?}.{what} gave {q:?}");
    // unit from the designated list (fit of an unsystemed / same-system quantity: the system's list)
    let best = BUNDLED.best_units(u.refr.0, system);
    let in_best = best.iter().any(|b| **b == *nu.unit);
    let fraction_shown = matches!(q.value(), Value::Number(Number::Fraction { .. }) | Value::Range { start: Number::Fraction { .. }, .. });
    vensure!(
        in_best || (c.target % 3 == 2 && fraction_shown && std::ptr::eq(nu, u)),
        "c09.unit-not-in-best-list",
        "{before:?}.{what} gave {q:?}; unit {} is not in the designated list {:?}",
        nu.keys[0],
        best.iter().map(|b| b.to_string()).collect::<Vec<_>>()
    );
    let Some((lo1, hi1)) = amount(&q, nu) else { vbail!("c09.value-kind", "{q:?}") };
    let t = 1e-9 * (1.0 + u.refr.2 * u.refr.1);
    vensure!(
        approx_eq(lo0, lo1, 1e-9, t) && approx_eq(hi0, hi1, 1e-9, t),
        "c09.system-amount-changed",
        "{before:?}.{what} gave {q:?}: amount {lo0:e}..{hi0:e} became {lo1:e}..{hi1:e} (base units)"
    );
    st.class_if(fraction_shown, "fraction-with-error-term");
    // a second conversion starts from the (possibly lossy fraction + error) result: the amount
    // must still be the original one
    let mut q2 = q.clone();
    let (r2, what2) = match (c.start_bits >> 3) % 4 {
        0 => (guard(|| q2.convert(System::Metric, &BUNDLED)), "convert(Metric)".to_string()),
        1 => (guard(|| q2.convert(System::Imperial, &BUNDLED)), "convert(Imperial)".to_string()),
        2 => (guard(|| q2.fit(&BUNDLED)), "fit()".to_string()),
        _ => {
            let back = key.clone();
            (guard(|| q2.convert(back.as_str(), &BUNDLED)), format!("convert({key:?})"))
        }
    };
    match r2 {
        Err(p) => vbail!("c09.panic.system", "{q:?}.{what2} panicked: {p}"),
        Ok(Err(e)) => vbail!("c09.system-conversion-failed", "{q:?}.{what2} failed: {e}"),
        Ok(Ok(())) => {}
    }
    let Some(nu2) = q2.unit().and_then(|k| find(units, k)) else {
        vbail!("c09.system-unit-unknown", "{q:?}.{what2} gave {q2:?}");
    };
    let Some((lo2, hi2)) = amount(&q2, nu2) else { vbail!("c09.value-kind", "{q2:?}") };
    vensure!(
        approx_eq(lo0, lo2, 1e-9, t) && approx_eq(hi0, hi2, 1e-9, t),
        "c09.chained-amount-changed",
        "{before:?}.{what} gave {q:?}, then .{what2} gave {q2:?}: amount {lo0:e}..{hi0:e} became {lo2:e}..{hi2:e} (base units)"
    );
    Ok(())
}

#[derive(Debug, Clone, Serialize, Deserialize)]
pub struct FailCase {
    /// 0 text value, 1 unitless, 2 unknown unit, 3 unknown target
    pub kind: u8,
    pub v: i32,
    pub target: u8,
}

fn check_failures(c: &FailCase, st: &mut Stats) -> Verdict {
    let v = c.v as f64 / 8.0;
    let mut q: ScaledQuantity = match c.kind % 4 {
        0 => Quantity::new(Value::Text("a pinch".into()), Some("g".into())),
        1 => Quantity::new(Value::from(v), None),
        2 => Quantity::new(Value::from(v), Some("smidgen".into())),
        _ => Quantity::new(Value::from(v), Some("kg".into())),
    };
    let before = q.clone();
    let (r, what) = match (c.kind % 4, c.target % 4) {
        (3, _) => (guard(|| q.convert("smidgen", &BUNDLED)), "convert(unknown target)"),
        (_, 0) => (guard(|| q.convert(System::Metric, &BUNDLED)), "convert(Metric)"),
        (_, 1) => (guard(|| q.convert(System::Imperial, &BUNDLED)), "convert(Imperial)"),
        (_, 2) => (guard(|| q.convert("g", &BUNDLED)), "convert(g)"),
        _ => (guard(|| q.convert(ConvertTo::SameSystem, &BUNDLED)), "convert(SameSystem)"),
    };
    st.class(["text value", "unitless", "unknown unit", "unknown target unit"][(c.kind % 4) as usize]);
    st.nontrivial(&(c.kind % 4, c.v, c.target % 4));
    let r = match r {
        Ok(r) => r,
        Err(p) => vbail!("c09.panic.failure-path", "{before:?}.{what} panicked: {p}"),
    };
    let ok_kind = match (c.kind % 4, &r) {
        (0, Err(ConvertError::TextValue(_))) => true,
        (1, Err(ConvertError::NoUnit(_))) => true,
        (2, Err(ConvertError::UnknownUnit(_))) => true,
        (3, Err(ConvertError::UnknownUnit(_))) => true,
        _ => false,
    };
    vensure!(ok_kind, "c09.failure-not-reported", "{before:?}.{what} returned {r:?}");
    vensure!(
        q == before && serde_json::to_string(&q).unwrap() == serde_json::to_string(&before).unwrap(),
        "c09.failed-conversion-mutated",
        "{before:?}.{what} failed but left {q:?}"
    );
    Ok(())
}

pub fn run(tier: Tier) -> i32 {
    let mut run = Run::new("C09", tier);
    run.assume("reference table of unit definitions in the harness (US customary liquid volumes from the gallon = 3.785411784 l, avoirdupois, SI prefixes, Celsius/Fahrenheit offsets) is the trusted base; volume tolerance 2.5e-7 relative because the shipped ratios are cut to 9 decimals");
    let mut st0 = Stats::default();
    let units = known_units(&mut st0);
    let n = units.len() as u64;
    run.replay_regressions(&|part, j| match part {
        "system" => check_system(&units, &case_from(j)?, &mut Stats::default()),
        "failures" => check_failures(&case_from(j)?, &mut Stats::default()),
        "layered" => crate::c09_layers::check(&case_from(j)?, &mut Stats::default()),
        _ => {
            let (a, b, ka, kb, v): (usize, usize, usize, usize, f64) = case_from(j)?;
            check_pair(&units, a, b, ka, kb, v, &mut Stats::default())
        }
    });
    // ratios and offsets as shipped vs definitions
    {
        let mut st = Stats::default();
        for u in &units {
            st.eval();
            st.nontrivial(&u.keys[0]);
            let (abs, rel) = if u.refr.0 == PhysicalQuantity::Volume { (1e-9, 0.0) } else { (0.0, 1e-10) };
            let ok_ratio = (u.unit.ratio - u.refr.1).abs() <= abs + rel * u.refr.1;
            let ok_diff = (u.unit.difference - u.refr.2).abs() <= 1e-9;
            if !(ok_ratio && ok_diff && u.unit.physical_quantity == u.refr.0) {
                run.fail(
                    "definitions",
                    Violation::new("c09.definition", format!("unit {}: shipped ratio {} difference {} quantity {}, standard definition ratio {} difference {} quantity {}", u.keys[0], u.unit.ratio, u.unit.difference, u.unit.physical_quantity, u.refr.1, u.refr.2, u.refr.0)),
                    json!(u.keys[0]),
                );
                break;
            }
            st.sample(|| json!({"unit": u.keys[0], "ratio": u.unit.ratio, "reference": u.refr.1}));
        }
        st.excluded = st0.excluded;
        run.add_part("definitions", "each bundled unit's ratio/difference against the real-world definition kept in the harness (volume: absolute 1e-9, others: relative 1e-10); every unit is non-trivial", st, true);
    }
    // standard notation: which unit a conventional symbol stands for does not come from the units file
    if !run.failed() {
        const NOTATION: &[(&str, &str)] = &[
            ("℃", "celsius"), ("°C", "celsius"), ("ºC", "celsius"), ("C", "celsius"), ("℉", "fahrenheit"), ("°F", "fahrenheit"), ("ºF", "fahrenheit"), ("F", "fahrenheit"),
            ("g", "gram"), ("kg", "kilogram"), ("mg", "milligram"), ("dag", "decagram"), ("l", "liter"), ("L", "liter"), ("ml", "milliliter"), ("dl", "deciliter"), ("cl", "centiliter"), ("kl", "kiloliter"),
            ("m", "meter"), ("cm", "centimeter"), ("mm", "millimeter"), ("km", "kilometer"), ("tsp", "teaspoon"), ("tbsp", "tablespoon"), ("fl oz", "fluid ounce"), ("c", "cup"), ("pt", "pint"), ("qt", "quart"),
            ("gal", "gallon"), ("ft", "foot"), ("'", "foot"), ("in", "inch"), ("\"", "inch"), ("oz", "ounce"), ("lb", "pound"), ("s", "second"), ("sec", "second"), ("min", "minute"), ("h", "hour"), ("d", "day"),
            ("litre", "liter"), ("metres", "meter"), ("grams", "gram"), ("kilograms", "kilogram"), ("millilitres", "milliliter"),
        ];
        let mut st = Stats::default();
        for (key, name) in NOTATION {
            st.eval();
            st.nontrivial(key);
            let by_key = BUNDLED.find_unit(key);
            let by_name = BUNDLED.find_unit(name);
            let same = match (&by_key, &by_name) {
                (Some(a), Some(b)) => std::sync::Arc::ptr_eq(a, b),
                _ => false,
            };
            if !same {
                run.fail(
                    "notation",
                    Violation::new("c09.definition", format!("`{key}` conventionally stands for the {name}; the bundled converter resolves it to {:?} (and `{name}` to {:?})", by_key.map(|u| u.to_string()), by_name.map(|u| u.to_string()))),
                    json!(key),
                );
                break;
            }
        }
        st.sample(|| json!(NOTATION[0]));
        run.add_part("notation", "45 conventional symbols and spellings (℃ °C ºC C ℉ °F F, SI symbols, US customary abbreviations, ' and \" for foot and inch, British spellings) must resolve to the unit they conventionally stand for, found by its plain name; every entry is non-trivial", st, true);
    }
    // (a)+(b) all ordered pairs x first key x grid, plus every key of both once
    if !run.failed() {
        let g = GRID.len() as u64;
        run_indexed(
            &mut run,
            "pairs",
            &format!("all ordered pairs of the {n} bundled units (SI-expanded included) x value grid {GRID:?}; keys rotate through every name/symbol/alias; same-quantity pairs are checked against the reference definitions, there-and-back; cross-quantity pairs must fail and leave the quantity unchanged; non-trivial = same physical quantity"),
            n * n * g * 4,
            true,
            |i| {
                let (k, r) = (i % 4, i / 4);
                json!([(r / g / n) as usize, (r / g % n) as usize, (k * 3) as usize, (k * 5 + 1) as usize, GRID[(r % g) as usize]])
            },
            |i, st| {
                let (k, r) = (i % 4, i / 4);
                let (a, b, v) = ((r / g / n) as usize, (r / g % n) as usize, GRID[(r % g) as usize]);
                if i % 50_021 == 0 {
                    st.sample(|| json!({"from": units[a].keys[0], "to": units[b].keys[0], "value": v}));
                }
                check_pair(&units, a, b, (k * 3) as usize, (k * 5 + 1) as usize, v, st)
            },
        );
    }
    if !run.failed() {
        let vals = [1.0, 37.5, -4.0];
        run_indexed(
            &mut run,
            "triples",
            "all ordered triples of bundled units within one physical quantity x {1, 37.5, -4}: direct conversion equals conversion via the third unit (relative 1e-9)",
            n * n * n * 3,
            true,
            |i| json!(i),
            |i, st| {
                let v = vals[(i % 3) as usize];
                let r = i / 3;
                check_triple(&units, (r / n / n) as usize, (r / n % n) as usize, (r % n) as usize, v, st)
            },
        );
    }
    if !run.failed() {
        let nu = units.len();
        run_prop(
            &mut run,
            "random-pairs",
            "random unit pair, random keys, random finite value in [-1e6, 1e6] (also tiny and negative)",
            move || {
                (0..nu, 0..nu, 0usize..8, 0usize..8, prop_oneof![(-1e6f64..1e6), (-10f64..10.0), (0f64..1e-3)])
            },
            tier.pick(100_000, 5_000_000),
            |c: &(usize, usize, usize, usize, f64), st| check_pair(&units, c.0, c.1, c.2, c.3, c.4, st),
        );
    }
    if !run.failed() {
        let nu = units.len();
        run_prop(
            &mut run,
            "system",
            "numeric and range quantities in any bundled unit (any key) converted to Metric, to Imperial, or fitted: the resulting unit is in the designated best-unit list of that system (or, for fit, the same unit shown as a fraction) and the physical amount incl. the recorded fraction error is unchanged (relative 1e-9), both range ends",
            move || {
                let val = prop_oneof![
                    3 => (0u32..40_000).prop_map(|k| k as f64 / 16.0),
                    2 => (0f64..5000.0),
                    1 => (-300f64..300.0),
                    1 => proptest::sample::select(GRID.to_vec()),
                ];
                (0..nu, 0usize..8, val.clone(), proptest::option::weighted(0.4, val), 0u8..3).prop_map(|(unit, key, s, e, target)| SysCase {
                    unit,
                    key,
                    start_bits: s.to_bits(),
                    end_bits: e.map(|e| (s + e.abs()).to_bits()),
                    target,
                })
            },
            tier.pick(150_000, 8_000_000),
            |c: &SysCase, st| {
                st.sample(|| {
                    let u = &units[c.unit % units.len()];
                    json!({"unit": u.keys[c.key % u.keys.len()], "start": f64::from_bits(c.start_bits), "end": c.end_bits.map(f64::from_bits), "target": (["metric", "imperial", "fit"][(c.target % 3) as usize])})
                });
                check_system(&units, c, st)
            },
        );
    }
    if !run.failed() {
        run_prop(
            &mut run,
            "failures",
            "text values, unitless quantities, unknown units and unknown target units: the documented error is returned and the quantity stays == and JSON-identical",
            || (0u8..4, -20_000i32..20_000, 0u8..4).prop_map(|(kind, v, target)| FailCase { kind, v, target }),
            tier.pick(20_000, 400_000),
            check_failures,
        );
    }
    if !run.failed() {
        crate::c09_layers::run_part(&mut run, tier);
    }
    if !run.failed() {
        crate::c09_recipe::run_recipe_part(&mut run, tier, &units_view(&units));
    }
    run.finish()
}

/// (keys, quantity, size, offset) view for the recipe part
pub type UnitView = Vec<(Vec<String>, PhysicalQuantity, f64, f64)>;
fn units_view(units: &[UnitInfo]) -> UnitView {
    units.iter().map(|u| (u.keys.clone(), u.refr.0, u.unit.ratio, u.unit.difference)).collect()
}

pub fn replay(part: &str, j: &serde_json::Value) -> Verdict {
    let mut st = Stats::default();
    let units = known_units(&mut st);
    match part {
        "system" => check_system(&units, &case_from(j)?, &mut st),
        "failures" => check_failures(&case_from(j)?, &mut st),
        "recipes" => crate::c09_recipe::replay(j, &units_view(&units)),
        "layered" => crate::c09_layers::check(&case_from(j)?, &mut st),
        "definitions" => Err(Violation::new("c09.definition", "re-run ./check C09 quick: the definitions part is a fixed table comparison")),
        "triples" => {
            let i: u64 = case_from(j)?;
            let n = units.len() as u64;
            let r = i / 3;
            check_triple(&units, (r / n / n) as usize, (r / n % n) as usize, (r % n) as usize, [1.0, 37.5, -4.0][(i % 3) as usize], &mut st)
        }
        _ => {
            let (a, b, ka, kb, v): (usize, usize, usize, usize, f64) = case_from(j)?;
            check_pair(&units, a, b, ka, kb, v, &mut st)
        }
    }
}
