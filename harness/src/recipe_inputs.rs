//! E1 prints and their mutations as inputs for the invariant oracles (filled in once E1 exists).

use crate::common::*;
use crate::inputs::*;

pub fn run_recipe_inputs(_run: &mut Run, _b: &Budget, _rule: &str, _oracle: InputOracle) {}
