//! E1 prints and their mutations (E2c) as inputs for the invariant oracles.

use proptest::prelude::*;

use crate::common::*;
use crate::gen_recipe::*;
use crate::inputs::*;
use crate::pipeline::*;
use crate::print::*;
use crate::soup::*;

/// split a source text into pieces at character-class boundaries
pub fn pieces_of(src: &str) -> Vec<String> {
    let mut out: Vec<String> = vec![];
    let mut cur = String::new();
    let mut cur_class = 0u8;
    for c in src.chars() {
        let class = if c.is_alphanumeric() {
            1
        } else if c == ' ' || c == '\t' {
            2
        } else {
            3
        };
        if class == 3 || class != cur_class {
            if !cur.is_empty() {
                out.push(std::mem::take(&mut cur));
            }
        }
        cur.push(c);
        cur_class = class;
        if class == 3 {
            out.push(std::mem::take(&mut cur));
            cur_class = 0;
        }
    }
    if !cur.is_empty() {
        out.push(cur);
    }
    out
}

pub const MUT_COMMENTS: &[&str] = &["[- c -]", "[-é-]", " [- ö ü -] ", "[-- n --]", "[---]", "[- x --]", "[- a - b -]", " -- é", "[- ] -]", "[-\u{a0}-]", "[- 😀", "-]"];

pub fn recipe_input_strategy(mutate: bool) -> impl Strategy<Value = InputCase> {
    let muts = if mutate {
        proptest::collection::vec((0u8..10, any::<u16>(), 0usize..ALPHABET.len(), any::<char>()), 1..5).boxed()
    } else {
        Just(vec![]).boxed()
    };
    (raw_recipe(None), muts, ext_strategy(), 0u8..2, proptest::bool::weighted(0.7)).prop_map(|(raw, muts, ext, conv, native)| {
        let m = build(&raw, false);
        let (src, _) = print_recipe(&m, &raw.tape);
        let mut pieces = pieces_of(&src);
        for (kind, pos, tok, ch) in muts {
            if pieces.is_empty() {
                pieces.push(ALPHABET[tok].to_string());
                continue;
            }
            let i = (pos as usize * pieces.len()) >> 16;
            match kind {
                0 => {
                    pieces.remove(i);
                }
                1 => {
                    let p = pieces[i].clone();
                    pieces.insert(i, p);
                }
                2 => {
                    let j = (i + 1).min(pieces.len() - 1);
                    pieces.swap(i, j);
                }
                3 => pieces.insert(i, ALPHABET[tok].to_string()),
                4 => pieces[i] = ALPHABET[tok].to_string(),
                // any character at all
                5 => pieces.insert(i, ch.to_string()),
                // a blank replaced by (or, where there is none, an insertion of) an exotic blank
                6 => {
                    let b = EXOTIC_BLANKS[tok % EXOTIC_BLANKS.len()].to_string();
                    if pieces[i].chars().all(|c| c == ' ' || c == '\t') {
                        pieces[i] = b;
                    } else {
                        pieces.insert(i, b);
                    }
                }
                // a block comment (some with multi-byte content, some with dashes next to the delimiters)
                7 => pieces.insert(i, MUT_COMMENTS[tok % MUT_COMMENTS.len()].to_string()),
                // a line comment ending in a multi-byte character, and the line break that ends it
                8 => pieces.insert(i, [" -- é\n", "-- 😀\n", " --é\r\n", "--\n"][tok % 4].to_string()),
                // the piece doubled many times (long names, long digit runs, many entries)
                _ => {
                    let p = pieces[i].clone();
                    for _ in 0..(3 + tok % 9) {
                        pieces.insert(i, p.clone());
                    }
                }
            }
        }
        // mostly the configuration the recipe was written for, sometimes any
        let (ext, conv) = if native {
            if raw.ext {
                (EXT_ALL, 1)
            } else {
                (EXT_EMPTY, 0)
            }
        } else {
            (ext, conv)
        };
        InputCase { pieces, ext, conv }
    })
}

pub fn run_recipe_inputs(run: &mut Run, b: &Budget, rule: &str, oracle: InputOracle) {
    if run.failed() {
        return;
    }
    run_prop(
        run,
        "recipes",
        &format!("well-formed generated recipes (E1, levels Core and Ext: references, intermediate references, mode switches, front matter, ...) printed with a random spelling, parsed under their own configuration (70%) or a random one; {rule}"),
        || recipe_input_strategy(false),
        b.recipe_cases,
        |c: &InputCase, st| {
            st.sample(|| c.describe());
            oracle(&c.input(), c.ext, c.conv, st)
        },
    );
    if run.failed() {
        return;
    }
    run_prop(
        run,
        "recipe-mutations",
        &format!("generated recipes with 1-4 token-level mutations (delete / duplicate / swap / insert / replace by an alphabet token / insert any character / exotic blank / block comment / line comment + line break / repeat a piece 4-12 times) to reach deep analysis states with malformed input; {rule}"),
        || recipe_input_strategy(true),
        b.recipe_cases,
        |c: &InputCase, st| {
            st.sample(|| c.describe());
            oracle(&c.input(), c.ext, c.conv, st)
        },
    );
}
