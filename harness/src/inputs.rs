//! Shared drivers that feed the input families E2(a) exhaustive, E2(b) soup / lines and (when
//! available) E1 prints and their mutations to an invariant oracle.

use serde_json::json;

use crate::common::*;
use crate::pipeline::*;
use crate::soup::*;

pub type InputOracle<'a> = &'a (dyn Fn(&str, usize, u8, &mut Stats) -> Verdict + Sync);

pub struct Budget {
    /// exhaustive length for the {empty, all} x {empty, bundled} configurations
    pub exhaustive_len_main: u32,
    /// exhaustive length for the 6 further sampled subsets (bundled converter)
    pub exhaustive_len_sampled: u32,
    pub soup_cases: u64,
    pub lines_cases: u64,
    pub recipe_cases: u64,
}

pub fn budget(tier: Tier, scale: f64) -> Budget {
    let s = |q: u64, t: u64| ((tier.pick(q, t) as f64) * scale) as u64;
    Budget {
        exhaustive_len_main: tier.pick(3, 4) as u32,
        exhaustive_len_sampled: tier.pick(2, 3) as u32,
        soup_cases: s(60_000, 6_000_000),
        lines_cases: s(40_000, 4_000_000),
        recipe_cases: s(20_000, 2_000_000),
    }
}

/// enumerated cases are distinct by construction: count non-trivial ones instead of hashing them
fn counted(oracle: InputOracle, input: &str, ext: usize, conv: u8, st: &mut Stats) -> Verdict {
    let mut s2 = Stats::default();
    let r = oracle(input, ext, conv, &mut s2);
    st.nontrivial_counted += s2.nontrivial.len().min(1) as u64;
    s2.nontrivial.clear();
    st.merge(s2);
    r
}

pub fn replay_input(j: &serde_json::Value, oracle: InputOracle) -> Verdict {
    let c: InputCase = case_from(j)?;
    oracle(&c.input(), c.ext, c.conv, &mut Stats::default())
}

pub fn run_inputs(run: &mut Run, b: &Budget, nontrivial_rule: &str, oracle: InputOracle) {
    // E2(a) exhaustive, main configurations
    let main_cfgs: [(usize, u8); 4] = [(EXT_EMPTY, 0), (EXT_ALL, 1), (EXT_ALL, 0), (EXT_EMPTY, 1)];
    let n_seq = exhaustive_count(b.exhaustive_len_main);
    let len = b.exhaustive_len_main;
    let decode = move |i: u64| -> InputCase {
        let (ext, conv) = main_cfgs[(i % 4) as usize];
        InputCase {
            pieces: exhaustive_decode(i / 4, len),
            ext,
            conv,
        }
    };
    run_indexed(
        run,
        "exhaustive",
        &format!(
            "every sequence of 1..={len} tokens of the {}-token alphabet (all markers, comment delimiters, LF/CRLF/CR, blanks incl. NBSP/U+3000, number shapes, 2/3/4-byte chars, fences, mode keys) under {{no extensions, all extensions}} x {{empty, bundled converter}}; {nontrivial_rule}",
            ALPHABET.len()
        ),
        n_seq * 4,
        true,
        |i| serde_json::to_value(decode(i)).unwrap(),
        |i, st| {
            let c = decode(i);
            let input = c.input();
            if i % 500_009 == 0 {
                st.sample(|| c.describe());
            }
            counted(oracle, &input, c.ext, c.conv, st)
        },
    );
    if run.failed() {
        return;
    }
    // E2(a) exhaustive, sampled subsets
    let sampled: Vec<usize> = SAMPLED_EXTS[2..].to_vec();
    let n_seq = exhaustive_count(b.exhaustive_len_sampled);
    let len2 = b.exhaustive_len_sampled;
    let ns = sampled.len() as u64;
    let sampled2 = sampled.clone();
    let decode2 = move |i: u64| -> InputCase {
        InputCase {
            pieces: exhaustive_decode(i / ns, len2),
            ext: sampled2[(i % ns) as usize],
            conv: 1,
        }
    };
    run_indexed(
        run,
        "exhaustive-subsets",
        &format!("every sequence of 1..={len2} tokens under {} further extension subsets (bundled converter); {nontrivial_rule}", sampled.len()),
        n_seq * ns,
        true,
        |i| serde_json::to_value(decode2(i)).unwrap(),
        |i, st| {
            let c = decode2(i);
            if i % 100_003 == 0 {
                st.sample(|| c.describe());
            }
            counted(oracle, &c.input(), c.ext, c.conv, st)
        },
    );
    if run.failed() {
        return;
    }
    // E2(a) exhaustive over the reduced component alphabet, deeper
    let clen = b.exhaustive_len_main + 2;
    let n_seq = exhaustive_count_in(COMPONENT_ALPHABET, clen);
    let decode3 = move |i: u64| -> InputCase {
        let (ext, conv) = if i % 2 == 0 { (EXT_ALL, 1) } else { (EXT_EMPTY, 0) };
        InputCase {
            pieces: exhaustive_decode_in(COMPONENT_ALPHABET, i / 2, clen),
            ext,
            conv,
        }
    };
    run_indexed(
        run,
        "exhaustive-components",
        &format!("every sequence of 1..={clen} tokens of the reduced alphabet {COMPONENT_ALPHABET:?} under the extended and the canonical parser; {nontrivial_rule}"),
        n_seq * 2,
        true,
        |i| serde_json::to_value(decode3(i)).unwrap(),
        |i, st| {
            let c = decode3(i);
            if i % 300_007 == 0 {
                st.sample(|| c.describe());
            }
            counted(oracle, &c.input(), c.ext, c.conv, st)
        },
    );
    if run.failed() {
        return;
    }
    run_prop(
        run,
        "soup",
        &format!("random token sequences of length 1..=60 (alphabet tokens, random words and numbers), random subset of the 192 extension sets, either converter; {nontrivial_rule}; distinct = distinct (input, configuration)"),
        || soup_strategy(60),
        b.soup_cases,
        |c: &InputCase, st| {
            st.sample(|| c.describe());
            oracle(&c.input(), c.ext, c.conv, st)
        },
    );
    if run.failed() {
        return;
    }
    run_prop(
        run,
        "lines",
        &format!("random documents of 1..10 lines drawn from line templates (token soup lines, fences, `>>` entries, YAML-like lines, mode switches, sections, text blocks, components incl. references/intermediate references), LF/CRLF/CR/blank separators; {nontrivial_rule}"),
        lines_strategy,
        b.lines_cases,
        |c: &InputCase, st| {
            st.sample(|| c.describe());
            oracle(&c.input(), c.ext, c.conv, st)
        },
    );
    if run.failed() {
        return;
    }
    // a fixed catalogue: documents that need several rare ingredients at once, under fixed configurations.
    // It does not draw from any generator, so adding to it never changes what the parts above explore.
    let cfgs: [(usize, u8); 4] = [(EXT_ALL, 1), (EXT_EMPTY, 0), (SAMPLED_EXTS[2], 1), (SAMPLED_EXTS[3], 1)];
    run_indexed(
        run,
        "catalogue",
        &format!("{} fixed documents (text with several fragments and multi-byte punctuation in components mode, references named like the alias of an earlier definition, ...) under all extensions, none and two sampled subsets; {nontrivial_rule}", CATALOGUE.len()),
        (CATALOGUE.len() * cfgs.len()) as u64,
        true,
        |i| serde_json::to_value(InputCase { pieces: vec![CATALOGUE[i as usize / 4].to_string()], ext: cfgs[i as usize % 4].0, conv: cfgs[i as usize % 4].1 }).unwrap(),
        |i, st| {
            let (ext, conv) = cfgs[i as usize % 4];
            counted(oracle, CATALOGUE[i as usize / 4], ext, conv, st)
        },
    );
    let _ = json!(null);
}

/// see the `catalogue` part of `run_inputs`
pub const CATALOGUE: &[&str] = &[
    // text ignored in components mode whose first letter comes after an escape, a comment or a CRLF soft break and
    // after multi-byte punctuation
    ">> [mode]: components\n→\\→→a @salt{}\n",
    ">> [mode]: components\n[- c -]→é x @a{}",
    ">> [mode]: components\n— -- c\n→ text @b{}",
    ">> [mode]: components\r\n→\r\n→ a\r\n",
    ">> [mode]: components\n…[- é -]…\\…b",
    // a reference whose name is the alias of an earlier definition (it must not resolve to that definition)
    "#frying pan|pan{} then #&pan{}",
    "#pan{} #large frying pan|pan{} #&pan{}",
    ">> [duplicate]: ref\n#frying pan|pan{} and #pan{}",
    ">> [mode]: steps\n#frying pan|pan{}\n\nuse the #pan{}",
    "@olive oil|oil{} then @&oil{} and @oil{} @&oil{}",
    ">> [duplicate]: ref\n@olive oil|oil{1%l} @oil{2%l}",
    // `>>` lines under a front matter whose key is brackets with nothing (or only blanks) inside
    "---\ntitle: x\n---\n>> []: x\nstep",
    "---\na: 1\n---\n>> [ ]: y\n>> [mode]: steps\n@a{}",
    "---\n---\n>> []:\n>> [ : z",
];
