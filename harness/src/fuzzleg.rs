//! Thorough tier: coverage-guided libFuzzer campaign (target `omni`, oracle in-target).

use std::path::PathBuf;
use std::process::Command;

use proptest::strategy::{Strategy, ValueTree};
use proptest::test_runner::{Config, RngAlgorithm, TestRng, TestRunner};
use serde_json::json;

use crate::common::*;
use crate::inputs::InputOracle;
use crate::pipeline::N_EXT;
use crate::recipe_inputs::recipe_input_strategy;
use crate::soup::InputCase;

fn build_dir() -> PathBuf {
    PathBuf::from(std::env::var("VERIF_BUILD_DIR").unwrap_or_else(|_| "/verif/build".into()))
}

fn encode(c: &InputCase) -> Vec<u8> {
    let mut v = vec![];
    v.extend_from_slice(&(c.ext as u16).to_le_bytes());
    v.push(c.conv);
    v.extend_from_slice(c.input().as_bytes());
    v
}

pub fn decode(data: &[u8]) -> Option<InputCase> {
    if data.len() < 3 {
        return None;
    }
    let ext = (u16::from_le_bytes([data[0], data[1]]) as usize) % N_EXT;
    let text = std::str::from_utf8(&data[3..]).ok()?;
    Some(InputCase { pieces: vec![text.to_string()], ext, conv: data[2] & 1 })
}

/// Runs `total_runs` executions split over `jobs` libFuzzer processes. Crashes are replayed through
/// `oracle` in this process; only a confirmed violation of this property is reported.
pub fn run_fuzz_leg(run: &mut Run, total_runs: u64, oracle: InputOracle) {
    let mut st = Stats::default();
    let rule = "libFuzzer (cargo-fuzz target `omni`, debug assertions on, oracle of this property armed in-target via VERIF_ONLY) from a corpus of generated recipes and mutated recipes; bytes = (extension subset, converter, UTF-8 text); evaluations = executed units reported by libFuzzer; non-trivial (counted conservatively) = inputs libFuzzer kept in the corpus because they reached new coverage";
    let b = build_dir();
    let fuzz_dir = b.join("fuzz");
    let target_dir = b.join("fuzz-target");
    let id = run.id;
    let note = |run: &mut Run, st: Stats, why: String| {
        let mut st = st;
        st.exclude(&format!("fuzz leg not run: {why}"));
        eprintln!("[verif] fuzz leg skipped: {why}");
        run.add_part("libfuzzer", rule, st, false);
    };
    if !fuzz_dir.join("Cargo.toml").exists() {
        return note(run, st, "no generated fuzz manifest (run through ./check)".into());
    }
    // build
    let out = Command::new("cargo")
        .args(["+nightly", "fuzz", "build", "--fuzz-dir"])
        .arg(&fuzz_dir)
        .arg("omni")
        .env("CARGO_NET_OFFLINE", "true")
        .env("CARGO_TARGET_DIR", &target_dir)
        .env("RUSTFLAGS", "--cfg cooklang_cooklang_rs_verif")
        .output();
    match out {
        Ok(o) if o.status.success() => {}
        Ok(o) => {
            let err = String::from_utf8_lossy(&o.stderr);
            let tail: String = err.lines().rev().take(15).collect::<Vec<_>>().into_iter().rev().collect::<Vec<_>>().join("\n");
            return note(run, st, format!("cargo fuzz build failed:\n{tail}"));
        }
        Err(e) => return note(run, st, format!("cannot run cargo fuzz: {e}")),
    }
    let bin = target_dir.join("x86_64-unknown-linux-gnu/release/omni");
    if !bin.exists() {
        return note(run, st, format!("fuzz binary not found at {}", bin.display()));
    }
    // fresh corpus seeded with generated inputs
    let corpus = b.join(format!("fuzz-corpus-{id}-{}", run.seed));
    let artifacts = b.join(format!("fuzz-artifacts-{id}-{}", run.seed));
    let _ = std::fs::remove_dir_all(&corpus);
    let _ = std::fs::remove_dir_all(&artifacts);
    std::fs::create_dir_all(&corpus).ok();
    std::fs::create_dir_all(&artifacts).ok();
    {
        let mut bytes = [0u8; 32];
        bytes[..8].copy_from_slice(&run.seed_for("libfuzzer", 0).to_le_bytes());
        let mut runner = TestRunner::new_with_rng(Config::default(), TestRng::from_seed(RngAlgorithm::ChaCha, &bytes));
        for i in 0..300 {
            let c = recipe_input_strategy(i % 3 == 2).new_tree(&mut runner).unwrap().current();
            let _ = std::fs::write(corpus.join(format!("seed-{i:04}")), encode(&c));
        }
        let _ = std::fs::write(corpus.join("seed-empty"), [0u8, 0, 0]);
    }
    let jobs = run.workers.max(1);
    let per = total_runs.div_ceil(jobs as u64);
    let mut children = vec![];
    for j in 0..jobs {
        let seed = (run.seed_for("libfuzzer", j) % 0x7fff_fffe) + 1;
        let child = Command::new(&bin)
            .arg(&corpus)
            .arg(format!("-runs={per}"))
            .arg(format!("-seed={seed}"))
            .arg("-len_control=0")
            .arg("-max_len=700")
            .arg("-timeout=20")
            .arg("-rss_limit_mb=4096")
            .arg("-print_final_stats=1")
            .arg(format!("-artifact_prefix={}/job{j}-", artifacts.display()))
            .env("VERIF_ONLY", id)
            .stdout(std::process::Stdio::null())
            // to a file, not a pipe: libFuzzer is chatty and 16 pipes read one after the other would stall the jobs
            .stderr(match std::fs::File::create(artifacts.join(format!("job{j}.log"))) {
                Ok(f) => std::process::Stdio::from(f),
                Err(_) => std::process::Stdio::null(),
            })
            .spawn();
        match child {
            Ok(c) => children.push(c),
            Err(e) => return note(run, st, format!("cannot start the fuzz binary: {e}")),
        }
    }
    let mut executed = 0u64;
    let mut crashed = false;
    let mut hung = false;
    let mut last_msgs = vec![];
    for (j, mut c) in children.into_iter().enumerate() {
        let status = c.wait().expect("wait fuzz job");
        let err = std::fs::read(artifacts.join(format!("job{j}.log"))).map(|b| String::from_utf8_lossy(&b).into_owned()).unwrap_or_default();
        for l in err.lines() {
            if let Some(n) = l.strip_prefix("stat::number_of_executed_units:") {
                executed += n.trim().parse::<u64>().unwrap_or(0);
            }
            if l.starts_with("VERIF-VIOLATION") || l.contains("panicked at") {
                last_msgs.push(l.to_string());
            }
            if l.contains("ERROR: libFuzzer: timeout") {
                hung = true;
            }
        }
        if !status.success() {
            crashed = true;
        }
    }
    st.evals(executed);
    let kept = std::fs::read_dir(&corpus).map(|d| d.count()).unwrap_or(0) as u64;
    st.nontrivial_counted = kept;
    st.sample(|| json!({"corpus_files_at_end": kept, "jobs": jobs, "runs_per_job": per}));
    // crashes: replay through the property's own oracle
    let mut violation = None;
    if crashed {
        if let Ok(rd) = std::fs::read_dir(&artifacts) {
            for e in rd.flatten() {
                let Ok(data) = std::fs::read(e.path()) else { continue };
                let Some(case) = decode(&data) else { continue };
                let input = case.input();
                let r = guard(|| oracle(&input, case.ext, case.conv, &mut Stats::default()));
                let is_timeout = e.file_name().to_string_lossy().contains("timeout");
                let v = match r {
                    Ok(Ok(())) if is_timeout && id == "C03" => Some(Violation::new("c03.hang", format!("libFuzzer reported a unit running longer than 20 s: {input:?}"))),
                    Ok(Ok(())) => None,
                    Ok(Err(v)) => Some(v),
                    Err(p) => Some(Violation::new("harness-panic", p)),
                };
                if let Some(v) = v {
                    if run.is_known(&v) {
                        *st.known_hits.entry(v.sig.clone()).or_insert(0) += 1;
                    } else {
                        violation = Some((v, serde_json::to_value(&case).unwrap()));
                        break;
                    }
                } else {
                    st.exclude("libFuzzer crash not attributable to this property (replay passes its oracle)");
                }
            }
        }
    }
    let _ = hung;
    st.class_if(crashed, "campaign-ended-by-crash");
    let _ = std::fs::remove_dir_all(&corpus);
    run.add_part("libfuzzer", rule, st, false);
    if let Some((v, case)) = violation {
        run.fail("libfuzzer", v, case);
    } else if crashed && !last_msgs.is_empty() {
        eprintln!("[verif] fuzz jobs crashed without a violation of {id}: {:?}", last_msgs.iter().take(3).collect::<Vec<_>>());
    }
}
