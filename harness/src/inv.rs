//! Invariant oracles over arbitrary input: C03 (totality), C04 (spans), C05 (nothing dropped),
//! C06 (model consistency), C07-structure, C14 (metadata-only vs full parse).

use cooklang::aisle;
use cooklang::ast::build_ast;
use cooklang::error::{Severity, SourceDiag, SourceReport, Stage};
use cooklang::ingredient_list::IngredientList;
use cooklang::metadata::CooklangValueExt;
use cooklang::parser::{Event, PullParser};
use cooklang::{
    Content, IngredientReferenceTarget, Item, Modifiers, ScalableRecipe, ScaledRecipe, Span, Text,
};

use crate::common::*;
use crate::pipeline::*;
use crate::{vbail, vensure};

fn panic_sig(prefix: &str, stage: &str, p: &str) -> String {
    let loc = p.rsplit(" @ ").next().unwrap_or("?");
    // strip absolute prefix of the repo so signatures are stable across checkouts
    let loc = loc.rsplit_once("/src/").map(|(_, r)| format!("src/{r}")).unwrap_or(loc.to_string());
    format!("{prefix}.panic.{stage}@{loc}")
}

macro_rules! stage {
    ($prefix:expr, $name:expr, $body:expr) => {
        match guard(|| $body) {
            Ok(v) => v,
            Err(p) => {
                return Err(Violation::new(
                    panic_sig($prefix, $name, &p),
                    format!("stage `{}` panicked: {}", $name, p),
                ))
            }
        }
    };
}

/// like `stage!` but a panic is somebody else's (C03's) business: count and skip the case
macro_rules! stage_or_skip {
    ($st:expr, $name:expr, $body:expr) => {
        match guard(|| $body) {
            Ok(v) => v,
            Err(_) => {
                $st.exclude(concat!("stage `", $name, "` panicked (C03's business)"));
                return Ok(());
            }
        }
    };
}

// ---------------------------------------------------------------------------
// C03

fn consume_metadata(r: &ScalableRecipe, conv: &cooklang::Converter) {
    let m = &r.metadata;
    let _ = m.title();
    let _ = m.description();
    let _ = m.tags();
    let _ = m.author();
    let _ = m.source();
    let _ = m.time(conv).map(|t| t.total());
    let _ = m.servings();
    let _ = m.locale();
    let _ = m.map_filtered().count();
    let _ = r.servings();
    for (k, v) in m.map.iter() {
        for x in [k, v] {
            let _ = x.as_tags();
            let _ = x.as_servings();
            let _ = x.as_string_list("|");
            let _ = x.as_name_and_url();
            let _ = x.as_minutes(conv);
            let _ = x.as_time(conv).map(|t| t.total());
            let _ = x.as_u32();
            let _ = x.as_locale();
            let _ = x.as_str_like();
        }
    }
}

pub fn consume_scaled(mut s: ScaledRecipe, conv: &cooklang::Converter, aisle_conf: &aisle::AisleConf) {
    let _ = serde_json::to_string(&s).map(|x| x.len());
    let _ = s.scaled_data().map(|d| (d.ingredients.len(), d.target.factor()));
    let _ = s.is_default_scaled();
    {
        let g = s.group_ingredients(conv);
        for gi in &g {
            let q = &gi.quantity;
            let _ = q.len();
            let _ = q.is_empty();
            let _ = q.to_string();
            let _ = q.iter().count();
            let mut q2 = q.clone();
            let _ = q2.fit(conv);
            let _ = q2.into_vec();
            let _ = gi.ingredient.display_name();
            let _ = gi.ingredient.modifiers();
        }
        let _ = serde_json::to_string(&g).map(|x| x.len());
        let c = s.group_cookware();
        for gc in &c {
            let _ = gc.amount.len();
            let _ = gc.amount.is_empty();
            let _ = gc.amount.to_string();
            let _ = gc.amount.iter().count();
            let _ = gc.amount.clone().into_vec();
            let _ = gc.cookware.display_name();
        }
        let _ = serde_json::to_string(&c).map(|x| x.len());
    }
    let mut list = IngredientList::from_recipe(&s, conv);
    list.add_recipe(&s, conv);
    let _ = list.iter().count();
    let _ = list.is_empty();
    let cat = list.categorize(aisle_conf);
    for (_c, l) in cat.iter() {
        for (_n, q) in l.iter() {
            let _ = q.to_string();
        }
    }
    for sys in SYSTEMS {
        let errs = s.convert(sys, conv);
        for e in errs {
            let _ = e.to_string();
        }
        let _ = serde_json::to_string(&s).map(|x| x.len());
        for q in s.ingredients.iter().filter_map(|i| i.quantity.as_ref()) {
            let _ = q.to_string();
            let mut q2 = q.clone();
            let _ = q2.fit(conv);
            let _ = q2.try_fraction(conv);
        }
    }
}

/// Everything a user can do with an input, each stage guarded.
pub fn c03_pipeline(input: &str, ext_idx: usize, conv_sel: u8, st: &mut Stats) -> Verdict {
    const P: &str = "c03";
    let ext = ALL_EXTS[ext_idx];
    let conv = converter(conv_sel);
    let p = parser(ext_idx, conv_sel);

    let events = stage!(P, "events", PullParser::new(input, ext).collect::<Vec<_>>());
    let nontrivial = events.iter().any(|e| {
        matches!(
            e,
            Event::Ingredient(_) | Event::Cookware(_) | Event::Timer(_) | Event::Error(_) | Event::Warning(_)
        )
    });
    if nontrivial {
        st.nontrivial(&(input, ext_idx, conv_sel));
    }
    for e in &events {
        let _ = stage!(P, "events-debug", format!("{e:?}"));
    }
    let _meta_events = stage!(
        P,
        "meta-iter",
        PullParser::new(input, ext).into_meta_iter().collect::<Vec<_>>()
    );
    let ast = stage!(P, "build_ast", build_ast(PullParser::new(input, ext)));
    stage!(P, "ast-report", render_report(ast.report(), input)).map_err(|e| Violation::new("c03.report-write-err", e))?;
    if let Some(a) = ast.output() {
        let _ = stage!(P, "ast-serialize", serde_json::to_string(a).map(|s| s.len()));
    }
    let full = stage!(P, "parse", p.parse(input));
    stage!(P, "parse-report", render_report(full.report(), input)).map_err(|e| Violation::new("c03.report-write-err", e))?;
    let meta = stage!(P, "parse_metadata", p.parse_metadata(input));
    stage!(P, "metadata-report", render_report(meta.report(), input)).map_err(|e| Violation::new("c03.report-write-err", e))?;
    // the same entry points with parse options (recipe-reference checker, metadata validator)
    let with_opts = stage!(P, "parse_with_options", p.parse_with_options(input, test_options()));
    stage!(P, "options-report", render_report(with_opts.report(), input)).map_err(|e| Violation::new("c03.report-write-err", e))?;
    let meta_opts = stage!(P, "parse_metadata_with_options", p.parse_metadata_with_options(input, test_options()));
    stage!(P, "options-metadata-report", render_report(meta_opts.report(), input)).map_err(|e| Violation::new("c03.report-write-err", e))?;
    let _ = stage!(P, "validity", (full.is_valid(), meta.is_valid(), full.has_output()));
    st.class_if(full.report().has_errors(), "parse-has-errors");
    st.class_if(full.has_output(), "parse-has-output");

    if let Some(r) = full.output() {
        stage!(P, "metadata-accessors", consume_metadata(r, conv));
        let _ = stage!(P, "serialize", serde_json::to_string(r).map(|s| s.len()));
        let aisle_conf = aisle::parse(AISLE_SAMPLE).expect("sample aisle");
        let fresh = || p.parse(input).into_output().expect("output on re-parse");
        stage!(P, "default_scale", consume_scaled(fresh().default_scale(), conv, &aisle_conf));
        for f in [0.5, 3.0, 1e-6, 1e9] {
            stage!(P, "scale", consume_scaled(fresh().scale(f, conv), conv, &aisle_conf));
        }
        for n in [1u32, 7] {
            stage!(
                P,
                "scale_to_servings",
                consume_scaled(fresh().scale_to_servings(n, conv), conv, &aisle_conf)
            );
        }
    }
    if let Some(m) = meta.output() {
        let _ = stage!(P, "metadata-only-serialize", serde_json::to_string(m).map(|s| s.len()));
    }
    Ok(())
}

// ---------------------------------------------------------------------------
// C04

fn span_ok(input: &str, s: Span) -> Result<(), String> {
    if s.start() > s.end() {
        return Err(format!("start {} > end {}", s.start(), s.end()));
    }
    if s.end() > input.len() {
        return Err(format!("span {s:?} outside input of length {}", input.len()));
    }
    if !input.is_char_boundary(s.start()) || !input.is_char_boundary(s.end()) {
        return Err(format!("span {s:?} not on char boundaries"));
    }
    Ok(())
}

fn text_ok(input: &str, t: &Text, what: &str) -> Verdict {
    if let Err(e) = span_ok(input, t.span()) {
        vbail!("c04.text-span", "{what}: {e}; input {input:?}");
    }
    let mut prev_end = None;
    for f in t.fragments() {
        if let Err(e) = span_ok(input, f.span()) {
            vbail!("c04.fragment-span", "{what} fragment: {e}; input {input:?}");
        }
        let slice = &input[f.span().range()];
        vensure!(
            slice == f.text(),
            "c04.fragment-content",
            "{what}: fragment text {:?} differs from input slice {:?} at {:?}; input {input:?}",
            f.text(),
            slice,
            f.span()
        );
        if let Some(pe) = prev_end {
            vensure!(
                pe <= f.start(),
                "c04.fragments-unordered",
                "{what}: fragment at {:?} starts before the previous one ends ({pe}); input {input:?}",
                f.span()
            );
        }
        prev_end = Some(f.end());
    }
    // the derived views of a text say the same as its fragments
    let joined: String = t
        .fragments()
        .iter()
        // a fragment's kind has no getter; its Debug form names soft breaks (only fragments made of line
        // break characters can be one, so the formatting cost is paid rarely)
        .map(|f| if !f.text().is_empty() && f.text().chars().all(|c| c == '\n' || c == '\r') && format!("{f:?}").starts_with("SoftBreak(") { " " } else { f.text() })
        .collect();
    let views = guard(|| (t.text().into_owned(), t.text_outer_trimmed().into_owned(), t.text_trimmed().into_owned(), t.is_text_empty(), t.located_text_trimmed(), t.located_string_trimmed()));
    let (text, outer, trimmed, empty, loc, loc_s) = match views {
        Ok(v) => v,
        Err(p) => return Err(Violation::new(panic_sig("c04", "text-view", &p), format!("{what}: a Text accessor panicked: {p}; input {input:?}"))),
    };
    let collapsed = {
        let mut out = String::new();
        let mut prev = ' ';
        for c in joined.trim().chars() {
            if c != ' ' || prev != ' ' {
                out.push(c);
            }
            prev = c;
        }
        out
    };
    vensure!(
        text == joined && outer == joined.trim() && trimmed == collapsed && empty == joined.trim().is_empty(),
        "c04.text-view",
        "{what}: fragments spell {joined:?} but text() = {text:?}, text_outer_trimmed() = {outer:?}, text_trimmed() = {trimmed:?} (expected {collapsed:?}), is_text_empty() = {empty}; input {input:?}"
    );
    vensure!(
        *loc.value() == trimmed && *loc_s.value() == trimmed && loc.span() == t.span() && loc_s.span() == t.span(),
        "c04.text-view",
        "{what}: located_text_trimmed() = {:?} @ {:?}, located_string_trimmed() = {:?} @ {:?}, but text_trimmed() = {trimmed:?} and span() = {:?}; input {input:?}",
        loc.value(), loc.span(), loc_s.value(), loc_s.span(), t.span()
    );
    Ok(())
}

fn inside(outer: Span, inner: Span) -> bool {
    outer.start() <= inner.start() && inner.end() <= outer.end()
}

fn diag_ok(input: &str, d: &SourceDiag, origin: &str) -> Verdict {
    for (i, (span, _)) in d.labels.iter().enumerate() {
        if let Err(e) = span_ok(input, *span) {
            vbail!(
                "c04.label-span",
                "{origin}: label {i} of diagnostic {:?}: {e}; input {input:?}",
                d.message
            );
        }
    }
    Ok(())
}

fn report_ok(input: &str, r: &SourceReport, origin: &str) -> Verdict {
    for d in r.iter() {
        diag_ok(input, d, origin)?;
    }
    match guard(|| render_report(r, input)) {
        Ok(Ok(())) => Ok(()),
        Ok(Err(e)) => vbail!("c04.report-write-err", "{origin}: {e}; input {input:?}"),
        Err(p) => Err(Violation::new(
            panic_sig("c04", "render", &p),
            format!("{origin}: rendering the report panicked: {p}; input {input:?}"),
        )),
    }
}

/// content span of an event (None for Start/End/diagnostics)
pub fn event_span(e: &Event) -> Option<Span> {
    Some(match e {
        Event::YAMLFrontMatter(t) => t.span(),
        Event::Metadata { key, value } => Span::from(key.span().start()..value.span().end()),
        Event::Section { name } => name.as_ref()?.span(),
        Event::Text(t) => t.span(),
        Event::Ingredient(c) => c.span(),
        Event::Cookware(c) => c.span(),
        Event::Timer(c) => c.span(),
        _ => return None,
    })
}

pub fn c04_spans(input: &str, ext_idx: usize, conv_sel: u8, st: &mut Stats) -> Verdict {
    let ext = ALL_EXTS[ext_idx];
    // (1) tokens tile the input
    let (offset, toks) = stage_or_skip!(st, "tokens", cooklang::parser::verif_tokens(input));
    vensure!(
        offset <= input.len() && input.is_char_boundary(offset),
        "c04.token-offset",
        "token offset {offset} invalid for input {input:?}"
    );
    let mut pos = offset;
    for (kind, s, e) in &toks {
        vensure!(
            *s == pos,
            "c04.tokens-not-adjacent",
            "token {kind} starts at {s}, expected {pos}; input {input:?}"
        );
        vensure!(
            e > s && *e <= input.len() && input.is_char_boundary(*e),
            "c04.token-span",
            "token {kind} {s}..{e} invalid; input {input:?}"
        );
        pos = *e;
    }
    vensure!(
        pos == input.len(),
        "c04.tokens-do-not-reach-end",
        "tokens end at {pos}, input length {}; input {input:?}",
        input.len()
    );

    // (2)+(3) events
    let events = stage_or_skip!(st, "events", PullParser::new(input, ext).collect::<Vec<_>>());
    let has_error = events.iter().any(|e| matches!(e, Event::Error(_)));
    let multibyte_near_marker = {
        let b = input.as_bytes();
        input.char_indices().any(|(i, c)| {
            c.len_utf8() > 1 && {
                let lo = i.saturating_sub(2);
                let hi = (i + c.len_utf8() + 2).min(b.len());
                b[lo..hi].iter().any(|x| b"@#~{}()%|&?+-=>:./*\\[]".contains(x))
            }
        })
    };
    let mut any_diag = false;
    let mut prev: Option<(Span, String)> = None;
    for ev in &events {
        match ev {
            Event::YAMLFrontMatter(t) => text_ok(input, t, "front matter")?,
            Event::Metadata { key, value } => {
                text_ok(input, key, "metadata key")?;
                text_ok(input, value, "metadata value")?;
            }
            Event::Section { name } => {
                if let Some(n) = name {
                    text_ok(input, n, "section name")?;
                }
            }
            Event::Text(t) => text_ok(input, t, "text")?,
            Event::Ingredient(c) => {
                if let Err(e) = span_ok(input, c.span()) {
                    vbail!("c04.component-span", "ingredient: {e}; input {input:?}");
                }
                let mut parts: Vec<(&str, Span)> = vec![("modifiers", c.modifiers.span()), ("name", c.name.span())];
                text_ok(input, &c.name, "ingredient name")?;
                if let Some(d) = &c.intermediate_data {
                    parts.push(("intermediate", d.span()));
                }
                if let Some(a) = &c.alias {
                    text_ok(input, a, "ingredient alias")?;
                    parts.push(("alias", a.span()));
                }
                if let Some(n) = &c.note {
                    text_ok(input, n, "ingredient note")?;
                    parts.push(("note", n.span()));
                }
                if let Some(q) = &c.quantity {
                    parts.push(("quantity", q.span()));
                    parts.push(("value", q.value.value.span()));
                    if let Some(l) = q.value.scaling_lock {
                        parts.push(("lock", l));
                    }
                    if let Some(u) = &q.unit {
                        text_ok(input, u, "ingredient unit")?;
                        parts.push(("unit", u.span()));
                    }
                }
                for (what, s) in parts {
                    if let Err(e) = span_ok(input, s) {
                        vbail!("c04.component-part-span", "ingredient {what}: {e}; input {input:?}");
                    }
                    if !has_error {
                        vensure!(
                            inside(c.span(), s),
                            "c04.part-outside-component",
                            "ingredient {what} {s:?} outside component {:?}; input {input:?}",
                            c.span()
                        );
                    }
                }
            }
            Event::Cookware(c) => {
                if let Err(e) = span_ok(input, c.span()) {
                    vbail!("c04.component-span", "cookware: {e}; input {input:?}");
                }
                let mut parts: Vec<(&str, Span)> = vec![("modifiers", c.modifiers.span()), ("name", c.name.span())];
                text_ok(input, &c.name, "cookware name")?;
                if let Some(a) = &c.alias {
                    text_ok(input, a, "cookware alias")?;
                    parts.push(("alias", a.span()));
                }
                if let Some(n) = &c.note {
                    text_ok(input, n, "cookware note")?;
                    parts.push(("note", n.span()));
                }
                if let Some(q) = &c.quantity {
                    parts.push(("quantity", q.span()));
                    parts.push(("value", q.value.span()));
                    if let Some(l) = q.scaling_lock {
                        parts.push(("lock", l));
                    }
                }
                for (what, s) in parts {
                    if let Err(e) = span_ok(input, s) {
                        vbail!("c04.component-part-span", "cookware {what}: {e}; input {input:?}");
                    }
                    if !has_error {
                        vensure!(
                            inside(c.span(), s),
                            "c04.part-outside-component",
                            "cookware {what} {s:?} outside component {:?}; input {input:?}",
                            c.span()
                        );
                    }
                }
            }
            Event::Timer(c) => {
                if let Err(e) = span_ok(input, c.span()) {
                    vbail!("c04.component-span", "timer: {e}; input {input:?}");
                }
                let mut parts: Vec<(&str, Span)> = vec![];
                if let Some(n) = &c.name {
                    text_ok(input, n, "timer name")?;
                    parts.push(("name", n.span()));
                }
                if let Some(q) = &c.quantity {
                    parts.push(("quantity", q.span()));
                    parts.push(("value", q.value.value.span()));
                    if let Some(l) = q.value.scaling_lock {
                        parts.push(("lock", l));
                    }
                    if let Some(u) = &q.unit {
                        text_ok(input, u, "timer unit")?;
                        parts.push(("unit", u.span()));
                    }
                }
                for (what, s) in parts {
                    if let Err(e) = span_ok(input, s) {
                        vbail!("c04.component-part-span", "timer {what}: {e}; input {input:?}");
                    }
                    if !has_error {
                        vensure!(
                            inside(c.span(), s),
                            "c04.part-outside-component",
                            "timer {what} {s:?} outside component {:?}; input {input:?}",
                            c.span()
                        );
                    }
                }
            }
            Event::Error(d) | Event::Warning(d) => {
                any_diag = true;
                diag_ok(input, d, "event stream")?;
            }
            Event::Start(_) | Event::End(_) => {}
        }
        if let Some(s) = event_span(ev) {
            if let Some((ps, pdesc)) = &prev {
                vensure!(
                    ps.end() <= s.start(),
                    "c04.events-overlap-or-unordered",
                    "event at {s:?} ({}) begins before the previous event {ps:?} ({pdesc}) ends; input {input:?}",
                    event_kind(ev)
                );
            }
            prev = Some((s, event_kind(ev).to_string()));
        }
    }

    // (4)+(5) reports of every entry point
    let p = parser(ext_idx, conv_sel);
    let full = stage_or_skip!(st, "parse", p.parse(input));
    any_diag |= !full.report().is_empty();
    report_ok(input, full.report(), "parse report")?;
    let meta = stage_or_skip!(st, "parse_metadata", p.parse_metadata(input));
    report_ok(input, meta.report(), "metadata-only report")?;
    match guard(|| build_ast(PullParser::new(input, ext))) {
        Ok(ast) => report_ok(input, ast.report(), "ast report")?,
        Err(_) => st.exclude("build_ast panicked (C03's business)"),
    }
    // the diagnostics that only parse options produce (recipe-reference checker, metadata validator)
    if input.contains("@@") || input.contains(">>") || input.contains("---") {
        match guard(|| p.parse_with_options(input, test_options())) {
            Ok(r) => {
                st.class_if(r.report().iter().count() != full.report().iter().count(), "diagnostics-from-parse-options");
                report_ok(input, r.report(), "parse_with_options report")?
            }
            Err(_) => st.exclude("parse_with_options panicked (C03's business)"),
        }
    }
    if multibyte_near_marker || any_diag {
        st.nontrivial(&(input, ext_idx, conv_sel));
    }
    st.class_if(multibyte_near_marker, "multibyte-near-marker");
    st.class_if(any_diag, "has-diagnostic");
    st.class_if(has_error, "has-parse-error");
    Ok(())
}

pub fn event_kind(e: &Event) -> &'static str {
    match e {
        Event::YAMLFrontMatter(_) => "front matter",
        Event::Metadata { .. } => "metadata",
        Event::Section { .. } => "section",
        Event::Start(_) => "start",
        Event::End(_) => "end",
        Event::Text(_) => "text",
        Event::Ingredient(_) => "ingredient",
        Event::Cookware(_) => "cookware",
        Event::Timer(_) => "timer",
        Event::Error(_) => "error",
        Event::Warning(_) => "warning",
    }
}

// ---------------------------------------------------------------------------
// C05

/// Marks comment bytes exactly as the lexer delimits them, starting at `from`.
pub fn comment_mask(input: &str, from: usize) -> Vec<bool> {
    let mut mask = vec![false; input.len()];
    let s = &input[from..];
    let mut it = s.char_indices().peekable();
    while let Some((i, c)) = it.next() {
        match c {
            '\\' => {
                it.next(); // escaped char: never starts a comment
            }
            '-' if matches!(it.peek(), Some((_, '-'))) => {
                // line comment: up to (excluding) the next '\n'
                let start = from + i;
                let mut end = input.len();
                while let Some((j, c2)) = it.peek().copied() {
                    if c2 == '\n' {
                        end = from + j;
                        break;
                    }
                    it.next();
                }
                for b in &mut mask[start..end] {
                    *b = true;
                }
            }
            '[' if matches!(it.peek(), Some((_, '-'))) => {
                let start = from + i;
                it.next(); // '-'
                let mut end = input.len();
                while let Some((_, c2)) = it.next() {
                    if c2 == '-' {
                        if let Some((j, ']')) = it.peek().copied() {
                            it.next();
                            end = from + j + 1;
                            break;
                        }
                    }
                }
                for b in &mut mask[start..end] {
                    *b = true;
                }
            }
            _ => {}
        }
    }
    mask
}

pub fn c05_coverage(input: &str, ext_idx: usize, st: &mut Stats) -> Verdict {
    let ext = ALL_EXTS[ext_idx];
    let events = match guard(|| PullParser::new(input, ext).collect::<Vec<_>>()) {
        Ok(e) => e,
        Err(_) => {
            st.exclude("event stream panicked (C03's business)");
            return Ok(());
        }
    };
    if events.iter().any(|e| matches!(e, Event::Error(_))) {
        st.class("error-event (not constrained)");
        return Ok(());
    }
    let (offset, _) = stage_or_skip!(st, "tokens", cooklang::parser::verif_tokens(input));
    let mask = comment_mask(input, offset);
    let mut covered = vec![false; input.len()];
    for e in &events {
        if let Some(s) = event_span(e) {
            if s.start() <= s.end() && s.end() <= input.len() {
                for b in &mut covered[s.range()] {
                    *b = true;
                }
            }
        }
    }
    let mut any_alnum = false;
    for (i, c) in input.char_indices() {
        if !c.is_alphanumeric() || mask[i] {
            continue;
        }
        any_alnum = true;
        vensure!(
            covered[i],
            "c05.dropped-content",
            "character {c:?} at byte {i} is outside every event span although no error was reported; input {input:?}"
        );
    }
    if any_alnum {
        st.nontrivial(&(input, ext_idx));
    }
    st.class_if(matches!(events.first(), Some(Event::YAMLFrontMatter(_))), "front-matter");
    st.class_if(input.contains("---") && offset == 0, "fence-text-without-front-matter");
    st.class_if(input.contains('\\'), "escape");
    st.class_if(mask.iter().any(|b| *b), "has-comment");
    Ok(())
}

// ---------------------------------------------------------------------------
// C06

pub fn check_model(r: &ScalableRecipe, valid: bool) -> Verdict {
    // item indices: in range, strictly increasing per kind in document order (hence used once)
    let mut next = [0usize; 4];
    let lens = [r.ingredients.len(), r.cookware.len(), r.timers.len(), r.inline_quantities.len()];
    let names = ["ingredient", "cookware", "timer", "inline quantity"];
    // where (section, content index) each ingredient is used
    let mut igr_pos: Vec<Option<(usize, usize)>> = vec![None; r.ingredients.len()];
    for (si, sec) in r.sections.iter().enumerate() {
        vensure!(!sec.is_empty(), "c06.empty-section", "section {si} is empty (no name, no content)");
        let mut number = 0u32;
        for (ci, c) in sec.content.iter().enumerate() {
            match c {
                Content::Text(_) => {}
                Content::Step(step) => {
                    number += 1;
                    vensure!(
                        step.number == number,
                        "c06.step-number",
                        "section {si}: step at content index {ci} has number {} but is step #{number} of its section",
                        step.number
                    );
                    vensure!(!step.items.is_empty(), "c06.empty-step", "section {si} content {ci}: step without items");
                    for it in &step.items {
                        let (k, idx) = match it {
                            Item::Text { value } => {
                                vensure!(!value.is_empty(), "c06.empty-text-item", "section {si} step {number}: empty text item");
                                continue;
                            }
                            Item::Ingredient { index } => (0, *index),
                            Item::Cookware { index } => (1, *index),
                            Item::Timer { index } => (2, *index),
                            Item::InlineQuantity { index } => (3, *index),
                        };
                        vensure!(
                            idx < lens[k],
                            "c06.item-index-out-of-range",
                            "section {si} step {number}: {} index {idx} but only {} exist",
                            names[k],
                            lens[k]
                        );
                        vensure!(
                            idx >= next[k],
                            "c06.item-index-order",
                            "section {si} step {number}: {} index {idx} after index {} was already used (document order broken or index reused)",
                            names[k],
                            next[k].wrapping_sub(1)
                        );
                        next[k] = idx + 1;
                        if k == 0 {
                            igr_pos[idx] = Some((si, ci));
                        }
                    }
                }
            }
        }
    }
    // ingredient relations
    for (i, igr) in r.ingredients.iter().enumerate() {
        let is_ref_mod = igr.modifiers().contains(Modifiers::REF);
        match igr.relation.references_to() {
            Some((t, IngredientReferenceTarget::Ingredient)) => {
                vensure!(t < i, "c06.reference-not-earlier", "ingredient {i} ({:?}) references ingredient {t} which is not earlier", igr.name);
                let def = &r.ingredients[t];
                vensure!(
                    def.relation.is_definition(),
                    "c06.reference-to-reference",
                    "ingredient {i} references {t} which is itself a reference"
                );
                let n = def.relation.referenced_from().iter().filter(|x| **x == i).count();
                vensure!(
                    n == 1,
                    "c06.backlink-count",
                    "definition {t} ({:?}) lists its referrer {i} {n} times (must be exactly once)",
                    def.name
                );
                if valid {
                    vensure!(
                        unicase::UniCase::new(igr.name.as_str()) == unicase::UniCase::new(def.name.as_str()),
                        "c06.reference-name-mismatch",
                        "ingredient {i} {:?} references {t} {:?}: names differ beyond case",
                        igr.name,
                        def.name
                    );
                }
            }
            Some((t, IngredientReferenceTarget::Step)) => {
                // the section holding the referrer: where it is used, or (components mode: not
                // placed in any step) cannot be determined -> then only check existence somewhere
                if let Some((si, ci)) = igr_pos[i] {
                    let sec = &r.sections[si];
                    vensure!(
                        t < sec.content.len() && sec.content[t].is_step(),
                        "c06.step-reference-target",
                        "ingredient {i} in section {si} references step content index {t}, which is not a step of that section"
                    );
                    vensure!(
                        t < ci,
                        "c06.step-reference-not-earlier",
                        "ingredient {i} at content index {ci} of section {si} references content index {t} (not earlier)"
                    );
                }
            }
            Some((t, IngredientReferenceTarget::Section)) => {
                vensure!(t < r.sections.len(), "c06.section-reference-target", "ingredient {i} references section {t} of {}", r.sections.len());
                if let Some((si, _)) = igr_pos[i] {
                    vensure!(t < si, "c06.section-reference-not-earlier", "ingredient {i} in section {si} references section {t} (not earlier)");
                }
            }
            None => {}
        }
        for &b in igr.relation.referenced_from() {
            vensure!(
                b > i && b < r.ingredients.len(),
                "c06.backlink-target",
                "definition {i} lists referrer {b} (must be a later ingredient; {} exist)",
                r.ingredients.len()
            );
            vensure!(
                r.ingredients[b].relation.references_to() == Some((i, IngredientReferenceTarget::Ingredient)),
                "c06.backlink-not-reciprocated",
                "definition {i} lists {b} as referrer but {b} does not reference it back"
            );
        }
        if valid {
            vensure!(
                igr.relation.references_to().is_some() == is_ref_mod,
                "c06.ref-modifier-mismatch",
                "valid recipe: ingredient {i} {:?} relation is_reference={} but REF modifier={}",
                igr.name,
                igr.relation.references_to().is_some(),
                is_ref_mod
            );
        }
    }
    for (i, cw) in r.cookware.iter().enumerate() {
        let is_ref_mod = cw.modifiers().contains(Modifiers::REF);
        if let Some(t) = cw.relation.references_to() {
            vensure!(t < i, "c06.reference-not-earlier", "cookware {i} references {t} which is not earlier");
            let def = &r.cookware[t];
            vensure!(def.relation.is_definition(), "c06.reference-to-reference", "cookware {i} references {t} which is a reference");
            let n = def.relation.referenced_from().iter().filter(|x| **x == i).count();
            vensure!(n == 1, "c06.backlink-count", "cookware definition {t} lists referrer {i} {n} times");
            if valid {
                vensure!(
                    unicase::UniCase::new(cw.name.as_str()) == unicase::UniCase::new(def.name.as_str()),
                    "c06.reference-name-mismatch",
                    "cookware {i} {:?} references {t} {:?}",
                    cw.name,
                    def.name
                );
            }
        }
        for &b in cw.relation.referenced_from() {
            vensure!(b > i && b < r.cookware.len(), "c06.backlink-target", "cookware definition {i} lists referrer {b}");
            vensure!(
                r.cookware[b].relation.references_to() == Some(i),
                "c06.backlink-not-reciprocated",
                "cookware definition {i} lists {b} which does not reference it back"
            );
        }
        if valid {
            vensure!(
                cw.relation.is_reference() == is_ref_mod,
                "c06.ref-modifier-mismatch",
                "valid recipe: cookware {i} is_reference={} but REF modifier={}",
                cw.relation.is_reference(),
                is_ref_mod
            );
        }
    }
    for (i, t) in r.timers.iter().enumerate() {
        vensure!(
            t.name.is_some() || t.quantity.is_some(),
            "c06.timer-without-name-and-quantity",
            "timer {i} has neither name nor quantity"
        );
    }
    // the convenience getters of relations, modifiers and content say what the data says
    for (i, igr) in r.ingredients.iter().enumerate() {
        let rel = &igr.relation;
        let to = rel.references_to();
        let views_ok = rel.is_definition() == to.is_none()
            && rel.is_regular_reference() == matches!(to, Some((_, IngredientReferenceTarget::Ingredient)))
            && rel.is_intermediate_reference() == matches!(to, Some((_, IngredientReferenceTarget::Step | IngredientReferenceTarget::Section)))
            && rel.is_defined_in_step().is_some() == to.is_none()
            && (to.is_none() || rel.referenced_from().is_empty());
        vensure!(views_ok, "c06.relation-views-disagree", "ingredient {i} ({:?}): the getters of its relation contradict each other: {rel:?}", igr.name);
        let m = igr.modifiers();
        vensure!(
            m.is_hidden() == m.contains(Modifiers::HIDDEN) && m.is_optional() == m.contains(Modifiers::OPT) && m.is_recipe() == m.contains(Modifiers::RECIPE) && m.is_reference() == m.contains(Modifiers::REF) && m.should_be_listed() == !m.intersects(Modifiers::HIDDEN | Modifiers::REF),
            "c06.modifier-views-disagree",
            "ingredient {i} ({:?}): modifier getters contradict the bits {m:?}",
            igr.name
        );
        // (an ingredient marked as a recipe shows the file stem of its name: not constrained here)
        if !m.contains(Modifiers::RECIPE) || igr.alias.is_some() {
            vensure!(igr.display_name() == igr.alias.as_deref().unwrap_or(&igr.name), "c06.display-name", "ingredient {i}: display name {:?}, name {:?}, alias {:?}", igr.display_name(), igr.name, igr.alias);
        }
    }
    for (i, cw) in r.cookware.iter().enumerate() {
        let rel = &cw.relation;
        let to = rel.references_to();
        vensure!(
            rel.is_definition() == to.is_none() && rel.is_reference() == to.is_some() && rel.is_defined_in_step().is_some() == to.is_none() && (to.is_none() || rel.referenced_from().is_empty()),
            "c06.relation-views-disagree",
            "cookware {i} ({:?}): the getters of its relation contradict each other: {rel:?}",
            cw.name
        );
        vensure!(cw.display_name() == cw.alias.as_deref().unwrap_or(&cw.name), "c06.display-name", "cookware {i}: display name {:?}, name {:?}, alias {:?}", cw.display_name(), cw.name, cw.alias);
    }
    for sec in &r.sections {
        for c in &sec.content {
            let ok = match c {
                Content::Step(s) => c.is_step() && !c.is_text() && std::ptr::eq(c.unwrap_step(), s),
                Content::Text(t) => c.is_text() && !c.is_step() && c.unwrap_text() == t,
            };
            vensure!(ok, "c06.content-views-disagree", "content getters contradict the variant: {c:?}");
        }
    }
    Ok(())
}

pub fn c06_model(input: &str, ext_idx: usize, conv_sel: u8, st: &mut Stats) -> Verdict {
    let p = parser(ext_idx, conv_sel);
    let res = match guard(|| p.parse(input)) {
        Ok(r) => r,
        Err(_) => {
            st.exclude("parse panicked (C03's business)");
            return Ok(());
        }
    };
    let valid = res.is_valid();
    let has_err = res.report().has_errors();
    let Some(r) = res.output() else {
        st.class("no-output");
        return Ok(());
    };
    let refs = r.ingredients.iter().filter(|i| i.relation.references_to().is_some()).count()
        + r.cookware.iter().filter(|c| c.relation.is_reference()).count();
    if refs > 0 || r.sections.len() >= 2 || has_err {
        st.nontrivial(&(input, ext_idx, conv_sel));
    }
    st.class_if(refs > 0, "has-reference");
    st.class_if(r.ingredients.iter().any(|i| i.relation.is_intermediate_reference()), "has-intermediate-reference");
    st.class_if(r.sections.len() >= 2, "multi-section");
    st.class_if(has_err, "output-with-analysis-error");
    st.class_if(
        r.sections.iter().any(|s| s.content.iter().any(|c| matches!(c, Content::Text(t) if t.trim().is_empty()))),
        "empty-text-paragraph (outside the claimed wording, not a violation)",
    );
    check_model(r, valid).map_err(|mut v| {
        v.msg = format!("{}; extensions {}; input {input:?}", v.msg, ext_name(ext_idx));
        v
    })
}

// ---------------------------------------------------------------------------
// C07 (structure part)

pub fn c07_structure(input: &str, ext_idx: usize, conv_sel: u8, st: &mut Stats) -> Verdict {
    let p = parser(ext_idx, conv_sel);
    let res = match guard(|| p.parse(input)) {
        Ok(r) => r,
        Err(_) => {
            st.exclude("parse panicked (C03's business)");
            return Ok(());
        }
    };
    let rep = res.report();
    let n_err = rep.iter().filter(|d| d.severity == Severity::Error).count();
    let has_err = n_err > 0;
    vensure!(
        rep.has_errors() == has_err,
        "c07.has_errors-inconsistent",
        "has_errors() = {} but the report holds {n_err} error diagnostics; input {input:?}",
        rep.has_errors()
    );
    vensure!(
        res.is_valid() == (res.has_output() && !has_err),
        "c07.validity-definition",
        "is_valid() = {} but has_output = {} and errors = {n_err}; input {input:?}",
        res.is_valid(),
        res.has_output()
    );
    let parse_err = rep.iter().any(|d| d.severity == Severity::Error && d.stage == Stage::Parse);
    if parse_err {
        st.class("parse-stage-error");
        st.nontrivial(&(input, ext_idx, conv_sel));
        vensure!(
            !res.has_output(),
            "c07.output-despite-parse-error",
            "a parse-stage error was reported but an output was returned; input {input:?}"
        );
        vensure!(
            rep.iter().all(|d| d.stage == Stage::Parse),
            "c07.analysis-diagnostic-after-parse-error",
            "a parse-stage error was reported together with analysis diagnostics: {:?}; input {input:?}",
            rep.iter().filter(|d| d.stage != Stage::Parse).map(|d| d.message.to_string()).collect::<Vec<_>>()
        );
    } else {
        vensure!(
            res.has_output(),
            "c07.no-output-without-parse-error",
            "no parse-stage error but no output; input {input:?}"
        );
        if has_err {
            st.class("analysis-error-with-output");
            st.nontrivial(&(input, ext_idx, conv_sel));
        }
    }
    // "valid exactly when it has output and no error" for the other ways of asking: with parse options
    // (whose callbacks add diagnostics of their own) and for the metadata-only parse
    {
        let with_options = guard(|| {
            let a = p.parse_with_options(input, test_options());
            let b = p.parse_metadata(input);
            let c = p.parse_metadata_with_options(input, test_options());
            let view = |rep: &cooklang::error::SourceReport, valid: bool, out: bool, valid_out: bool| (rep.iter().filter(|d| d.severity == Severity::Error).count(), rep.has_errors(), rep.errors().count(), valid, out, valid_out);
            [
                ("parse_with_options", view(a.report(), a.is_valid(), a.has_output(), a.valid_output().is_some())),
                ("parse_metadata", view(b.report(), b.is_valid(), b.has_output(), b.valid_output().is_some())),
                ("parse_metadata_with_options", view(c.report(), c.is_valid(), c.has_output(), c.valid_output().is_some())),
            ]
        });
        match with_options {
            Err(_) => st.exclude("parse with options panicked (C03's business)"),
            Ok(views) => {
                for (what, (n, has, counted, valid, out, valid_out)) in views {
                    vensure!(
                        has == (n > 0) && counted == n,
                        "c07.has_errors-inconsistent",
                        "{what}: the report holds {n} error diagnostics but has_errors() = {has} and errors() yields {counted}; input {input:?}"
                    );
                    vensure!(
                        valid == (out && n == 0) && valid_out == valid,
                        "c07.validity-definition",
                        "{what}: is_valid() = {valid}, valid_output() is {}, but has_output = {out} and errors = {n}; input {input:?}",
                        if valid_out { "Some" } else { "None" }
                    );
                    st.class_if(n > 0 && what != "parse_metadata", "error diagnostics under parse options");
                }
            }
        }
    }
    // every view of the result tells the same story (the consuming views need a parse each: only when
    // there is something to tell)
    let n_warn = rep.iter().filter(|d| d.severity == Severity::Warning).count();
    vensure!(
        rep.has_warnings() == (n_warn > 0) && rep.errors().count() == n_err && rep.warnings().count() == n_warn && rep.is_empty() == (n_err + n_warn == 0),
        "c07.report-views-inconsistent",
        "report holds {n_err} errors / {n_warn} warnings but has_warnings() = {}, errors() = {}, warnings() = {}, is_empty() = {}; input {input:?}",
        rep.has_warnings(), rep.errors().count(), rep.warnings().count(), rep.is_empty()
    );
    vensure!(
        rep.iter().all(|d| d.is_error() == (d.severity == Severity::Error) && d.is_warning() == (d.severity == Severity::Warning)),
        "c07.report-views-inconsistent",
        "is_error() / is_warning() disagree with the severity field; input {input:?}"
    );
    vensure!(res.valid_output().is_some() == res.is_valid(), "c07.validity-definition", "valid_output() is {} but is_valid() = {}; input {input:?}", if res.valid_output().is_some() { "Some" } else { "None" }, res.is_valid());
    if n_err + n_warn > 0 {
        let (valid, has_output) = (res.is_valid(), res.has_output());
        let views = guard(|| {
            let as_result = p.parse(input).into_result();
            let (out, rep2) = p.parse(input).into_tuple();
            let (errs, warns) = p.parse(input).into_report().unzip();
            let mut only_errors = p.parse(input).into_report();
            only_errors.remove_warnings();
            (as_result, out.is_some(), rep2.iter().count(), errs, warns, only_errors)
        });
        if let Ok((as_result, tuple_has_output, tuple_count, errs, warns, only_errors)) = views {
            match &as_result {
                Ok((_, r)) => vensure!(
                    valid && !r.has_errors() && r.errors().count() == 0 && r.iter().count() == n_warn && r.has_warnings() == (n_warn > 0),
                    "c07.validity-definition",
                    "into_result() is Ok (report: {} diagnostics, has_errors {}) but is_valid() = {valid}, {n_err} errors, {n_warn} warnings; input {input:?}",
                    r.iter().count(), r.has_errors()
                ),
                Err(r) => vensure!(
                    !valid && r.iter().count() == n_err + n_warn && r.has_errors() == has_err,
                    "c07.validity-definition",
                    "into_result() is Err (report: {} diagnostics) but is_valid() = {valid}, {n_err} errors, {n_warn} warnings; input {input:?}",
                    r.iter().count()
                ),
            }
            vensure!(tuple_has_output == has_output && tuple_count == n_err + n_warn, "c07.report-views-inconsistent", "into_tuple() gives output {tuple_has_output} / {tuple_count} diagnostics, the borrowed view {has_output} / {}; input {input:?}", n_err + n_warn);
            vensure!(
                errs.iter().count() == n_err && warns.iter().count() == n_warn && errs.iter().all(|d| d.is_error()) && warns.iter().all(|d| d.is_warning()) && errs.has_errors() == has_err && !errs.has_warnings() && warns.has_warnings() == (n_warn > 0) && !warns.has_errors(),
                "c07.report-views-inconsistent",
                "unzip() gives {} errors / {} warnings, the report holds {n_err} / {n_warn}; input {input:?}",
                errs.iter().count(), warns.iter().count()
            );
            vensure!(
                only_errors.iter().count() == n_err && only_errors.iter().all(|d| d.is_error()),
                "c07.report-views-inconsistent",
                "remove_warnings() leaves {} diagnostics, the report holds {n_err} errors; input {input:?}",
                only_errors.iter().count()
            );
        }
    }
    // completeness seen from the output: a result without errors holds no cataloged invalid construct
    if let (Some(r), false) = (res.output(), has_err) {
        for (kind, name, alias) in r
            .ingredients
            .iter()
            // a recipe path reference such as `@./dir/{}` derives its name from the path: what was written is not empty
            .filter(|i| i.reference.is_none())
            .map(|i| ("ingredient", &i.name, &i.alias))
            .chain(r.cookware.iter().map(|c| ("cookware", &c.name, &c.alias)))
        {
            vensure!(
                !name.trim().is_empty(),
                "c07.missing-diagnostic.empty-name",
                "a result without errors holds an {kind} whose name is {name:?} (empty names are invalid); extensions {}; input {input:?}",
                ext_name(ext_idx)
            );
            vensure!(
                alias.as_ref().map_or(true, |a| !a.trim().is_empty()),
                "c07.missing-diagnostic.empty-alias",
                "a result without errors holds an {kind} {name:?} whose alias is {alias:?} (empty aliases are invalid); extensions {}; input {input:?}",
                ext_name(ext_idx)
            );
        }
        for t in &r.timers {
            vensure!(
                t.name.as_ref().map_or(true, |n| !n.trim().is_empty()) || t.quantity.is_some(),
                "c07.missing-diagnostic.timer-with-neither-name-nor-duration",
                "a result without errors holds the timer {t:?}; input {input:?}"
            );
        }
    }
    // the event stream's own error events are exactly the parse-stage errors
    if let Ok(events) = guard(|| PullParser::new(input, ALL_EXTS[ext_idx]).collect::<Vec<_>>()) {
        let ev_err = events.iter().filter(|e| matches!(e, Event::Error(_))).count();
        let rep_parse_err = rep.iter().filter(|d| d.severity == Severity::Error && d.stage == Stage::Parse).count();
        vensure!(
            ev_err == rep_parse_err,
            "c07.parse-errors-lost",
            "event stream has {ev_err} error events but the report holds {rep_parse_err} parse-stage errors; input {input:?}"
        );
    }
    Ok(())
}

// ---------------------------------------------------------------------------
// C14

pub fn c14_meta(input: &str, ext_idx: usize, conv_sel: u8, st: &mut Stats) -> Verdict {
    let p = parser(ext_idx, conv_sel);
    let (full, meta) = match guard(|| (p.parse(input), p.parse_metadata(input))) {
        Ok(r) => r,
        Err(_) => {
            st.exclude("parse panicked (C03's business)");
            return Ok(());
        }
    };
    let (Some(f), Some(m)) = (full.output(), meta.output()) else {
        st.class("one-side-without-output (not constrained)");
        return Ok(());
    };
    if !m.map.is_empty() || !f.metadata.map.is_empty() || input.contains(">>") || input.contains("---") {
        st.nontrivial(&(input, ext_idx, conv_sel));
    }
    st.class_if(!f.metadata.map.is_empty(), "non-empty-metadata");
    st.class_if(input.contains("---"), "has-fence-text");
    // Mapping equality in serde_yaml ignores order; compare the ordered entry lists
    let fe: Vec<_> = f.metadata.map.iter().collect();
    let me: Vec<_> = m.map.iter().collect();
    vensure!(
        fe == me,
        "c14.metadata-differs",
        "parse_metadata gives {:?} but parse gives {:?}; extensions {}; input {input:?}",
        m.map,
        f.metadata.map,
        ext_name(ext_idx)
    );
    // the same with parse options (a validator that excludes some keys, skips the standard checks
    // of others and warns about others): both entry points take the options and must still agree
    let (full, meta) = match guard(|| (p.parse_with_options(input, test_options()), p.parse_metadata_with_options(input, test_options()))) {
        Ok(r) => r,
        Err(_) => {
            st.exclude("parse with options panicked (C03's business)");
            return Ok(());
        }
    };
    let (Some(fo), Some(mo)) = (full.output(), meta.output()) else {
        return Ok(());
    };
    st.class_if(fo.metadata.map.len() < f.metadata.map.len(), "validator-excluded-a-key");
    let fe: Vec<_> = fo.metadata.map.iter().collect();
    let me: Vec<_> = mo.map.iter().collect();
    vensure!(
        fe == me,
        "c14.metadata-differs-with-options",
        "with a metadata validator parse_metadata_with_options gives {:?} but parse_with_options gives {:?}; extensions {}; input {input:?}",
        mo.map,
        fo.metadata.map,
        ext_name(ext_idx)
    );
    Ok(())
}
