//! C17 — line endings, comments and blank space do not change the recipe.

use proptest::prelude::*;
use serde::{Deserialize, Serialize};
use serde_json::json;

use crate::common::*;
use crate::gen_recipe::*;
use crate::image::*;
use crate::pipeline::*;
use crate::print::*;
use crate::recipe_inputs::recipe_input_strategy;
use crate::soup::InputCase;
use crate::{vbail, vensure};

#[derive(Debug, Clone, Serialize, Deserialize)]
pub struct Case {
    pub raw: RawRecipe,
    /// (kind, position selector, variant)
    pub edits: Vec<(u8, u16, u8)>,
    pub crlf: bool,
}

fn ws_norm(s: &str) -> String {
    s.split_whitespace().collect::<Vec<_>>().join(" ")
}

/// whitespace of any kind inside step / paragraph text is not significant for C17
fn normalize_for_c17(mut r: IRecipe) -> IRecipe {
    for s in r.sections.iter_mut() {
        for c in s.content.iter_mut() {
            match c {
                IContent::Text(t) => *t = ws_norm(t),
                IContent::Step { items, .. } => {
                    for it in items.iter_mut() {
                        if let IItem::Text(t) = it {
                            // keep the information "blank at the edge of the item", drop the kind of blank
                            let lead = t.starts_with(char::is_whitespace);
                            let trail = t.ends_with(char::is_whitespace);
                            let core = ws_norm(t);
                            *t = format!("{}{}{}", if lead && !core.is_empty() { " " } else { "" }, core, if trail { " " } else { "" });
                        }
                    }
                    *items = normalize_items(std::mem::take(items));
                }
            }
        }
    }
    r
}

pub fn parse_image(src: &str, ext: usize, conv: u8) -> Result<(bool, bool, Option<IRecipe>), Violation> {
    let res = match guard(|| parser(ext, conv).parse(src)) {
        Ok(r) => r,
        Err(p) => return Err(Violation::new("c17.panic", format!("parse panicked: {p}; source {src:?}"))),
    };
    let img = match res.output() {
        Some(o) => Some(normalize_for_c17(actual_image(o).map_err(|e| Violation::new("c17.image", e))?)),
        None => None,
    };
    Ok((res.is_valid(), res.has_output(), img))
}

pub fn compare(what: &str, a_src: &str, b_src: &str, ext: usize, conv: u8) -> Verdict {
    let (va, oa, ia) = parse_image(a_src, ext, conv)?;
    let (vb, ob, ib) = parse_image(b_src, ext, conv)?;
    vensure!(va == vb && oa == ob, "c17.validity-changed", "{what}: validity/output changed from ({va},{oa}) to ({vb},{ob})\n before {a_src:?}\n after  {b_src:?}");
    if let (Some(ia), Some(ib)) = (ia, ib) {
        if let Some((w, d)) = diff(&ia, &ib) {
            vbail!(format!("c17.recipe-changed.{w}"), "{what}: {d}\n before {a_src:?}\n after  {b_src:?}");
        }
    }
    // the metadata-only parse is another reading of the same text: its entries do not change either
    let (ma, mb) = (meta_image(a_src, ext, conv)?, meta_image(b_src, ext, conv)?);
    vensure!(
        ma == mb,
        "c17.recipe-changed.metadata-only-parse",
        "{what}: the metadata-only parse gives {ma:?} before and {mb:?} after\n before {a_src:?}\n after  {b_src:?}"
    );
    Ok(())
}

/// (validity, entries with blank space normalised) of the metadata-only parse
fn meta_image(src: &str, ext: usize, conv: u8) -> Result<(bool, Option<Vec<(String, String)>>), Violation> {
    let res = match guard(|| parser(ext, conv).parse_metadata(src)) {
        Ok(r) => r,
        Err(p) => return Err(Violation::new("c17.panic", format!("parse_metadata panicked: {p}; source {src:?}"))),
    };
    let entries = res.output().map(|m| m.map.iter().map(|(k, v)| (ws_norm(&serde_json::to_string(k).unwrap_or_default()), ws_norm(&serde_json::to_string(v).unwrap_or_default()))).collect());
    Ok((res.is_valid(), entries))
}

/// byte offset where the cooklang part starts (after a front matter printed by the E1 printer)
fn cooklang_start(src: &str, has_front: bool) -> usize {
    if !has_front {
        return 0;
    }
    let mut fences = 0;
    let mut off = 0;
    for line in src.split_inclusive('\n') {
        off += line.len();
        if line.trim_end() == "---" {
            fences += 1;
            if fences == 2 {
                return off;
            }
        }
    }
    src.len()
}

/// for every line: is its end inside a block comment opened on this or an earlier line?
/// (a mini lexer: backslash escapes, `--` line comments, `[- ... -]` block comments)
fn open_block_at_line_end(lines: &[String]) -> Vec<bool> {
    let mut out = Vec::with_capacity(lines.len());
    let mut in_block = false;
    for l in lines {
        let cs: Vec<char> = l.chars().collect();
        let mut i = 0;
        while i < cs.len() {
            if in_block {
                if cs[i] == '-' && cs.get(i + 1) == Some(&']') {
                    in_block = false;
                    i += 2;
                } else {
                    i += 1;
                }
            } else if cs[i] == '\\' {
                i += 2;
            } else if cs[i] == '-' && cs.get(i + 1) == Some(&'-') {
                break;
            } else if cs[i] == '[' && cs.get(i + 1) == Some(&'-') {
                in_block = true;
                i += 2;
            } else {
                i += 1;
            }
        }
        out.push(in_block);
    }
    out
}

fn apply_edits(src: &str, start: usize, edits: &[(u8, u16, u8)], changed_inside: &mut bool) -> String {
    let (head, body) = src.split_at(start);
    let mut lines: Vec<String> = body.split('\n').map(String::from).collect();
    for (kind, pos, variant) in edits {
        if lines.is_empty() {
            break;
        }
        let i = (*pos as usize * lines.len()) >> 16;
        match kind % 3 {
            // trailing comment / blanks on a line (not on the last pseudo-line after a final newline,
            // which would create a new line)
            0 => {
                if i + 1 == lines.len() && lines[i].is_empty() {
                    continue;
                }
                let add = [" -- trailing", "  ", "\t", " --", " -- @x{1%kg} >> a: b", " ", " [- c -]", " [- c -] -- d", " [-- n --]", "[---]", " [- a -] [- b -] "][*variant as usize % 11];
                // block comments do not nest: inside one, a `-]` would close it early
                if add.contains("-]") && open_block_at_line_end(&lines)[i] {
                    continue;
                }
                if !lines[i].trim().is_empty() {
                    *changed_inside = true;
                }
                lines[i].push_str(add);
            }
            // extra blank / comment-only line next to an existing empty line
            1 => {
                let empties: Vec<usize> = (0..lines.len()).filter(|&j| lines[j].trim().is_empty()).collect();
                // only truly between lines: an empty line that is not the tail after the final newline
                let cands: Vec<usize> = empties.into_iter().filter(|&j| j + 1 < lines.len()).collect();
                if cands.is_empty() {
                    continue;
                }
                let j = cands[(*pos as usize * cands.len()) >> 16];
                let add = ["", "   ", "-- comment only", "[- block -]", "\t[- a -] -- b", "[-- dashes --]", "[---]", "[- x --] -- y"][*variant as usize % 8];
                if add.contains("-]") && j > 0 && open_block_at_line_end(&lines)[j - 1] {
                    continue;
                }
                lines.insert(j, add.to_string());
                *changed_inside = true;
            }
            // blank / comment-only lines at the very top of the cooklang part
            _ => {
                let add = ["", "-- top", "  "][*variant as usize % 3];
                lines.insert(0, add.to_string());
            }
        }
    }
    format!("{head}{}", lines.join("\n"))
}

fn check(c: &Case, st: &mut Stats) -> Verdict {
    let m = build(&c.raw, false);
    let ext = m.level == crate::model::Level::Ext;
    let (ei, conv) = if ext { (EXT_ALL, 1) } else { (EXT_EMPTY, 0) };
    let plain = print_plain(&m);
    let (spelled, feats) = print_recipe(&m, &c.raw.tape);
    // (1) two spellings of one recipe: comments between words, spacing, wraps
    compare("plain spelling vs spelling with comments / blanks / wraps", &plain, &spelled, ei, conv)?;
    // (2) line-level edits of the spelled source (in its LF form; the printer's own CRLF variant is
    // covered by (1) and (3))
    let spelled = spelled.replace("\r\n", "\n");
    let start = cooklang_start(&spelled, m.front.is_some());
    let mut inside = false;
    // a multi-line block comment makes "line" edits land inside a comment, which is fine
    let edited = apply_edits(&spelled, start, &c.edits, &mut inside);
    compare("trailing comments / blanks / extra blank or comment-only lines", &spelled, &edited, ei, conv)?;
    // (3) CRLF
    let mut crlf_done = false;
    if c.crlf && !edited.contains('\\') && !edited.contains('\r') {
        let crlf = edited.replace('\n', "\r\n");
        compare("LF -> CRLF", &edited, &crlf, ei, conv)?;
        crlf_done = true;
    }
    if inside || crlf_done || feats.comments > 0 || feats.soft_wraps > 0 {
        st.nontrivial(&(edited.as_str(), crlf_done));
    }
    st.class_if(crlf_done, "crlf");
    st.class_if(inside, "line-edit");
    st.class_if(feats.comments > 0, "comments-between-words");
    st.sample(|| json!({"before": spelled, "after": edited, "crlf": crlf_done}));
    Ok(())
}

fn check_crlf_any(c: &InputCase, st: &mut Stats) -> Verdict {
    let src = c.input();
    if src.contains('\\') || src.replace("\r\n", "").contains('\r') {
        st.exclude("input with a backslash or a lone carriage return");
        return Ok(());
    }
    let lf = src.replace("\r\n", "\n");
    if !lf.contains('\n') {
        st.class("single-line");
        return Ok(());
    }
    let crlf = lf.replace('\n', "\r\n");
    st.nontrivial(&(lf.as_str(), c.ext, c.conv));
    compare("LF -> CRLF (arbitrary input)", &lf, &crlf, c.ext, c.conv)
}

/// recipes referenced by path, with blanks inside directory and file names: the words of each template are
/// joined by a blank in the plain spelling and by a generated separator in the other one
const PATH_TEMPLATES: &[&[&str]] = &[
    &["Use @./my", "sauces/tomato", "sauce{1%kg} now."],
    &["Make @../shared", "dir/pizza", "dough{} first."],
    &["Add @@./sauces/green", "pesto{2%tbsp} and", "stir."],
    &["@./a", "b/c", "d/e", "f{}"],
    &["Top with @./sauces/white", "sauce{}(warm", "it) and @&./sauces/white", "sauce{}."],
];
const PATH_SEPARATORS: &[&str] = &[" ", "  ", " [- c -] ", "[- c -] ", " [-é-]", " -- c\n", "\n", "   -- é\n  ", " [-- x --] "];

fn check_paths(c: &(u8, Vec<u8>, bool), st: &mut Stats) -> Verdict {
    let t = PATH_TEMPLATES[c.0 as usize % PATH_TEMPLATES.len()];
    let plain = format!("{}\n", t.join(" "));
    let mut spelled = String::new();
    let mut varied = false;
    for (i, w) in t.iter().enumerate() {
        if i > 0 {
            let sep = PATH_SEPARATORS[*c.1.get(i - 1).unwrap_or(&0) as usize % PATH_SEPARATORS.len()];
            varied |= sep != " ";
            spelled.push_str(sep);
        }
        spelled.push_str(w);
    }
    spelled.push('\n');
    if c.2 {
        spelled = spelled.replace('\n', "\r\n");
        varied = true;
    }
    if varied {
        st.nontrivial(&spelled);
    }
    st.sample(|| json!({"before": plain, "after": spelled}));
    compare("recipe path reference: plain spelling vs comments / blanks / wraps between the words of its names", &plain, &spelled, EXT_ALL, 1)
}

/// well-formed documents whose components, notes and references are wrapped over several lines:
/// every line of each gets every trailing edit the property lists
const WRAPPED_TEMPLATES: &[&str] = &[
    "Mix @salt{\n  =1%tsp} well.\n",
    "Mix @salt{\n =1 tsp} and @pepper{=\n2%g}.\n",
    "@flour{\n200\n%\ng\n}(sifted\ntwice) goes in.\n",
    "Use a #pan|skillet{\n} and #lid{\n1\n}.\n",
    "Rest ~rest{\n10%min\n} then ~{\n5\n%\nmin}.\n",
    "Knead @dough{1%kg}.\n\nBake @&(\n~1\n)dough{} and @&dough{\n=1%kg\n}.\n",
    "@olive\noil{2%tbsp} with @sea\nsalt|salt{} and #big\npot{}.\n",
    ">> title: My pie\n>> servings: 2 | 4\n\nMix @a{1\n-\n2%cups}.\n",
    "> A note\n> over lines\n\nStep @x{1/\n2%l} one.\n\n= Part\n\nStep two.\n",
    "@@green\npesto{1%jar} and @./sauces/red\nsauce{\n}.\n",
];
// (every edit starts with a blank: `-` followed by a glued `--c` would be another token; blanks are
// ASCII spaces, the property speaks of trailing spaces and a tab inside a name is kept as it is)
const TRAILING_EDITS: &[&str] = &[" -- c", " --c", " -- é", "   ", " ", " [- c -]", " [--]", " [- a -] [- b -]  ", " [- é -] -- ü"];

fn check_wrapped(c: &(u8, u8, u8, bool), st: &mut Stats) -> Verdict {
    let t = WRAPPED_TEMPLATES[c.0 as usize % WRAPPED_TEMPLATES.len()];
    let lines: Vec<&str> = t.split_inclusive('\n').collect();
    let i = c.1 as usize % lines.len();
    let edit = TRAILING_EDITS[c.2 as usize % TRAILING_EDITS.len()];
    let mut after = String::new();
    for (k, l) in lines.iter().enumerate() {
        if k == i {
            after.push_str(l.trim_end_matches('\n'));
            after.push_str(edit);
            after.push('\n');
        } else {
            after.push_str(l);
        }
    }
    if c.3 {
        after = after.replace('\n', "\r\n");
    }
    st.nontrivial(&after);
    st.sample(|| json!({"before": t, "after": after}));
    for (ext, conv) in [(EXT_ALL, 1u8), (EXT_EMPTY, 0u8)] {
        compare("a trailing comment / trailing blanks appended to one line of a wrapped component (and LF -> CRLF)", t, &after, ext, conv)?;
    }
    Ok(())
}

pub fn run(tier: Tier) -> i32 {
    let mut run = Run::new("C17", tier);
    run.assume("recipes are compared through their image with every run of whitespace inside step / paragraph text collapsed; diagnostics are not compared (spans move)");
    run.assume("line edits are applied to the Cooklang part only (a trailing `-- c` inside YAML front matter is YAML, not a comment)");
    run.replay_regressions(&|part, j| match part {
        "crlf-any" => check_crlf_any(&case_from(j)?, &mut Stats::default()),
        "wrapped" => check_wrapped(&case_from(j)?, &mut Stats::default()),
        _ => check(&case_from(j)?, &mut Stats::default()),
    });
    if !run.failed() {
        run_prop(
            &mut run,
            "wellformed",
            "generated well-formed recipes (both levels): (1) plainest spelling vs random spelling (block comments between words and inside names / quantities, blanks, soft wraps, line comments); (2) 0-6 line edits: trailing ` -- c` / block comments (one or several, some with dashes next to the delimiters) / blanks appended to a line, blank or comment-only lines added next to an existing empty line or at the top; (3) LF -> CRLF of the whole file when it has no backslash; each pair must have equal validity and equal recipes; non-trivial = an edit touched a non-empty line or added a line, CRLF applied, or the spelling has comments / wraps",
            || {
                (raw_recipe(None), proptest::collection::vec((0u8..3, any::<u16>(), any::<u8>()), 0..6), any::<bool>()).prop_map(|(raw, edits, crlf)| Case { raw, edits, crlf })
            },
            tier.pick(20_000, 2_000_000),
            check,
        );
    }
    if !run.failed() {
        run_prop(
            &mut run,
            "wrapped",
            "10 well-formed documents whose quantities, notes, names, intermediate references and locks are wrapped over several lines: one of 9 trailing edits (line comment, block comments, blanks, tab) is appended to one line, optionally with LF -> CRLF, under all extensions and none; recipe, metadata-only parse and validity must not change; every case is non-trivial",
            || (0u8..WRAPPED_TEMPLATES.len() as u8, any::<u8>(), 0u8..TRAILING_EDITS.len() as u8, any::<bool>()),
            tier.pick(3_000, 60_000),
            check_wrapped,
        );
    }
    for (part, mutate, n) in [("crlf-any", true, tier.pick(20_000, 2_000_000))] {
        if run.failed() {
            break;
        }
        run_prop(
            &mut run,
            part,
            "CRLF replacement on arbitrary inputs (mutated generated recipes under random configurations) that contain no backslash and no lone carriage return; non-trivial = the input has at least one line break",
            move || recipe_input_strategy(mutate),
            n,
            check_crlf_any,
        );
    }
    if !run.failed() {
        run_prop(
            &mut run,
            "crlf-lines",
            "CRLF replacement on random line documents (soup lines, fences, metadata, sections, text blocks) without backslash / lone CR",
            crate::soup::lines_strategy,
            tier.pick(20_000, 2_000_000),
            check_crlf_any,
        );
    }
    if !run.failed() {
        run_prop(
            &mut run,
            "paths",
            "ingredients that reference another recipe by path, with several words in directory and file names: the plain spelling against one with block comments, line comments + wraps, extra blanks or CRLF between those words; equal validity and equal recipes (name, path components, quantity, note); non-trivial = some separator is not a single blank",
            || (any::<u8>(), proptest::collection::vec(any::<u8>(), 4), proptest::bool::weighted(0.2)),
            tier.pick(3_000, 100_000),
            check_paths,
        );
    }
    run.finish()
}

pub fn replay(part: &str, j: &serde_json::Value) -> Verdict {
    match part {
        "paths" => check_paths(&case_from(j)?, &mut Stats::default()),
        "wrapped" => check_wrapped(&case_from(j)?, &mut Stats::default()),
        "crlf-any" | "crlf-lines" => check_crlf_any(&case_from(j)?, &mut Stats::default()),
        _ => check(&case_from(j)?, &mut Stats::default()),
    }
}
