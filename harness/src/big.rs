//! Large inputs: one small unit repeated thousands of times (deep recursion, 16-bit length
//! fields, quadratic behaviour), optionally inside a prefix / suffix that turns the run into one
//! long token. A stack overflow aborts the process, which `catch_unwind` cannot observe, so the
//! cases run in child processes of this binary (`verif <ID> --big <k> <n> <tier>`), each case on a
//! thread with Rust's default 2 MiB stack; the parent reads the children's progress lines.

use serde::{Deserialize, Serialize};
use serde_json::json;

use crate::common::*;
type J = serde_json::Value;
use crate::pipeline::*;

#[derive(Debug, Clone, Serialize, Deserialize)]
pub struct BigCase {
    pub prefix: String,
    pub unit: String,
    pub count: u32,
    pub suffix: String,
    pub ext: usize,
    pub conv: u8,
}

impl BigCase {
    pub fn input(&self) -> String {
        let mut s = String::with_capacity(self.prefix.len() + self.unit.len() * self.count as usize + self.suffix.len());
        s.push_str(&self.prefix);
        for _ in 0..self.count {
            s.push_str(&self.unit);
        }
        s.push_str(&self.suffix);
        s
    }
    pub fn describe(&self) -> J {
        json!({"prefix": self.prefix, "unit": self.unit, "count": self.count, "suffix": self.suffix, "extensions": ext_name(self.ext), "converter": if self.conv == 0 { "empty" } else { "bundled" }})
    }
}

/// units repeated to form blocks, items, tokens and nesting
const UNITS: &[&str] = &[
    ">\n\n", "> \n", ">\n", "a\n\n", "a ", "a\n", "@a{} ", "@a{1%kg}\n\n", "@a ", "#b ", "#b{}\n\n", "~{1%min} ", "~t ", "[- c -]", "[- c -]\n\n", "-- c\n", "-- c\n\n", "= s\n", "==\n\n",
    "=\n", ">> k: v\n", ">> k: v\n\n", "(", ")", "{", "}", "@", "#", "~", "\\a", "\\", " ", "\t", "\n", "\r\n", "\n\n", "1", "1/", "1 ", "1.", "é", "😀", "\u{a0}", "|", "%", "&", "@&(1)", "@&(~1)x{} ",
    "---\n", "- ", "-", ">", ">>", ":", "[-", "-]", "[", "]", "@a{}(n) ", "@a|b{} ", "@a{1%kg}(", "12 kg ", "@x{1-2%g} ", "\u{feff}", "\0",
];

/// (prefix, unit, suffix): a single long token or field, followed by content whose spans must still be right
const WRAPPED: &[(&str, &str, &str)] = &[
    ("[- ", "x", " -] @salt{1%kg} é\n"),
    ("-- ", "x", "\n@salt{1%kg} é\n"),
    ("", "x", " @salt{1%kg} é\n"),
    ("", " ", "@salt{1%kg} é\n"),
    ("", "7", " @salt{1%kg} é\n"),
    ("@", "x", "{1%kg} é @salt{2%kg}\n"),
    ("@salt{1%", "k", "} é @salt{2%kg}\n"),
    ("@salt{", "9", "%kg} é @salt{2%kg}\n"),
    ("@salt{}(", "n ", ") é @salt{2%kg}\n"),
    (">> k: ", "v", "\n@salt{1%kg} é\n"),
    (">> ", "k", ": v\n@salt{1%kg} é\n"),
    ("= ", "s", "\n@salt{1%kg} é\n"),
    ("---\ntitle: ", "t", "\n---\n@salt{1%kg} é\n"),
    ("---\n", "k: v\n", "---\n@salt{1%kg} é\n"),
    ("---\ntags: [", "a, ", "b]\n---\n@salt{1%kg} é\n"),
    ("> ", "x ", "\n\n@salt{1%kg} é\n"),
    ("~", "x", "{5%min} é @salt{2%kg}\n"),
    ("@salt|", "x", "{} é @salt{2%kg}\n"),
    ("@./", "d/", "f{} é @salt{2%kg}\n"),
    ("@&(", "1", ")x{} é\n"),
    ("a é ", "[- c -]", " @salt{1%kg} é\n"),
    ("a é ", "\\", "\\@ @salt{1%kg} é\n"),
];

pub fn cases(tier: Tier) -> Vec<BigCase> {
    // repeated units: enough for recursion depth and 16-bit counters of items; some units cost quadratic
    // time in the parser (unclosed notes, thousands of `>>` entries), so the counts stay moderate.
    // wrapped units: one token / field longer than 64 KiB
    let (counts, wrapped_counts): (&[u32], &[u32]) = match tier {
        Tier::Quick => (&[3_000, 12_000], &[3_000, 70_000]),
        Tier::Thorough => (&[3_000, 12_000, 40_000], &[3_000, 70_000, 300_000]),
    };
    let mut out = vec![];
    for (i, u) in UNITS.iter().enumerate() {
        for (j, &count) in counts.iter().enumerate() {
            // alternate configurations instead of multiplying the work
            let (ext, conv) = if (i + j) % 2 == 0 { (EXT_ALL, 1) } else { (EXT_EMPTY, 0) };
            out.push(BigCase { prefix: String::new(), unit: u.to_string(), count, suffix: String::new(), ext, conv });
            if j == 0 {
                out.push(BigCase { prefix: "Mix é ".into(), unit: u.to_string(), count, suffix: "\n\n@salt{1%kg} é\n".into(), ext: EXT_ALL, conv: 1 });
            }
        }
    }
    for (i, (p, u, s)) in WRAPPED.iter().enumerate() {
        for (j, &count) in wrapped_counts.iter().enumerate() {
            let (ext, conv) = if (i + j) % 2 == 0 { (EXT_ALL, 1) } else { (EXT_EMPTY, 0) };
            out.push(BigCase { prefix: p.to_string(), unit: u.to_string(), count, suffix: s.to_string(), ext, conv });
        }
    }
    out
}

pub type BigOracle = fn(&str, usize, u8, &mut Stats) -> Verdict;

/// child side: run the cases `i % n == k`, one progress line before and after each
pub fn child_main(oracle: BigOracle, args: &[String]) -> i32 {
    let k: usize = args.get(3).and_then(|s| s.parse().ok()).unwrap_or(0);
    let n: usize = args.get(4).and_then(|s| s.parse().ok()).unwrap_or(1);
    let tier = if args.get(5).map(|s| s.as_str()) == Some("thorough") { Tier::Thorough } else { Tier::Quick };
    let only: Option<usize> = args.get(6).and_then(|s| s.parse().ok());
    let all = cases(tier);
    for (i, c) in all.iter().enumerate() {
        if i % n != k || only.is_some_and(|o| o != i) {
            continue;
        }
        println!("BIG {i}");
        let c2 = c.clone();
        let start = std::time::Instant::now();
        // Rust's default stack for spawned threads
        let h = std::thread::Builder::new().stack_size(2 << 20).spawn(move || {
            let input = c2.input();
            let mut st = Stats::default();
            match guard(|| oracle(&input, c2.ext, c2.conv, &mut st)) {
                Ok(v) => v,
                Err(p) => Err(Violation::new("big.oracle-panic", p)),
            }
        });
        let verdict = match h {
            Ok(h) => {
                // a generous deadline: slow is not wrong, but the parent must not wait forever
                while !h.is_finished() && start.elapsed().as_secs() < 300 {
                    std::thread::sleep(std::time::Duration::from_millis(2));
                }
                if !h.is_finished() {
                    println!("BIGSLOW {i}");
                    return 3;
                }
                h.join().unwrap_or_else(|_| Err(Violation::new("big.thread-panic", "the case's thread panicked")))
            }
            Err(e) => Err(Violation::new("big.infrastructure", format!("cannot spawn thread: {e}"))),
        };
        match verdict {
            Ok(()) => println!("BIGOK {i} {}", start.elapsed().as_millis()),
            Err(v) => {
                println!("BIGVIOL {i} {}", serde_json::to_string(&json!({"sig": v.sig, "msg": truncate(&v.msg, 3000)})).unwrap());
                return 1;
            }
        }
    }
    0
}

/// parent side
pub fn run_big_part(run: &mut Run, tier: Tier, what: &str) {
    if run.failed() {
        return;
    }
    let all = cases(tier);
    let exe = match std::env::current_exe() {
        Ok(e) => e,
        Err(e) => {
            run.set_inconclusive(format!("cannot find own executable: {e}"));
            return;
        }
    };
    let n = run.workers.max(1);
    let id = run.id;
    let children: Vec<_> = (0..n)
        .map(|k| std::process::Command::new(&exe).args([id, "--big", &k.to_string(), &n.to_string(), tier.name()]).stdout(std::process::Stdio::piped()).stderr(std::process::Stdio::null()).spawn())
        .collect();
    let mut st = Stats::default();
    let mut fail: Option<(Violation, J)> = None;
    let mut slowest = (0u128, 0usize);
    for child in children {
        let child = match child {
            Ok(c) => c,
            Err(e) => {
                run.set_inconclusive(format!("cannot spawn child process: {e}"));
                return;
            }
        };
        let out = match child.wait_with_output() {
            Ok(o) => o,
            Err(e) => {
                run.set_inconclusive(format!("child process: {e}"));
                return;
            }
        };
        let text = String::from_utf8_lossy(&out.stdout);
        let mut current: Option<usize> = None;
        for line in text.lines() {
            let mut it = line.splitn(3, ' ');
            match (it.next(), it.next().and_then(|s| s.parse::<usize>().ok())) {
                (Some("BIG"), Some(i)) => current = Some(i),
                (Some("BIGOK"), Some(i)) => {
                    st.eval();
                    st.nontrivial(&i);
                    let ms: u128 = it.next().and_then(|s| s.parse().ok()).unwrap_or(0);
                    if ms > slowest.0 {
                        slowest = (ms, i);
                    }
                    current = None;
                }
                (Some("BIGSLOW"), Some(i)) => {
                    run.set_inconclusive(format!("a large input took more than 300 s (not judged): {}", all[i].describe()));
                    return;
                }
                (Some("BIGVIOL"), Some(i)) => {
                    st.eval();
                    let j: J = it.next().and_then(|s| serde_json::from_str(s).ok()).unwrap_or(J::Null);
                    let sig = j.get("sig").and_then(|s| s.as_str()).unwrap_or("big.violation").to_string();
                    let msg = j.get("msg").and_then(|s| s.as_str()).unwrap_or("").to_string();
                    if fail.is_none() {
                        fail = Some((Violation::new(sig, format!("{msg}\n big input: {}", all[i].describe())), serde_json::to_value(&all[i]).unwrap()));
                    }
                    current = None;
                }
                _ => {}
            }
        }
        if !out.status.success() && fail.is_none() {
            #[cfg(unix)]
            {
                use std::os::unix::process::ExitStatusExt;
                if out.status.signal() == Some(9) {
                    // killed from outside (the kernel's out-of-memory killer, a time limit): not judged
                    run.set_inconclusive(format!("a child process of the large-input part was killed (SIGKILL) at case {:?}", current.map(|i| all[i].describe())));
                    return;
                }
            }
            if let Some(i) = current {
                st.eval();
                fail = Some((
                    Violation::new(
                        format!("{}.abort-on-large-input", id.to_lowercase()),
                        format!("the process died ({}) while handling a large input on a thread with a 2 MiB stack (stack overflow or abort): {}", out.status, all[i].describe()),
                    ),
                    serde_json::to_value(&all[i]).unwrap(),
                ));
            } else if out.status.code() != Some(1) {
                run.set_inconclusive(format!("a child process of the large-input part ended with {} outside a case", out.status));
                return;
            }
        }
    }
    st.sample(|| json!({"slowest_case_ms": slowest.0 as u64, "slowest_case": all[slowest.1].describe(), "cases": all.len()}));
    run.add_part(
        "large-inputs",
        &format!("{} inputs made of one unit ({} units: markers, blocks, comments, blanks, digits, multi-byte characters, nesting openers) repeated 3 000 / 12 000{} times, bare or inside a step, or as one long token / field of 3 000 / 70 000{} units ({} wrappers: comment, word, blank run, number, name, unit, note, metadata key and value, section, front matter, path) followed by content; run in child processes on threads with a 2 MiB stack; {what}; a dead child is a violation; non-trivial = every case", all.len(), UNITS.len(), if tier == Tier::Thorough { " / 40 000" } else { "" }, if tier == Tier::Thorough { " / 300 000" } else { "" }, WRAPPED.len()),
        st,
        false,
    );
    if let Some((v, case)) = fail {
        run.fail("large-inputs", v, case);
    }
}

pub fn replay(oracle: BigOracle, j: &J) -> Verdict {
    let c: BigCase = case_from(j)?;
    // in a child, so that an abort is observed
    let exe = std::env::current_exe().map_err(|e| Violation::new("big.infrastructure", e.to_string()))?;
    let dir = std::env::temp_dir();
    let _ = dir;
    // find the index of an equal case, else run in-process
    for tier in [Tier::Quick, Tier::Thorough] {
        if let Some(i) = cases(tier).iter().position(|x| x.prefix == c.prefix && x.unit == c.unit && x.count == c.count && x.suffix == c.suffix && x.ext == c.ext && x.conv == c.conv) {
            let id = HANG_PROPERTY.lock().unwrap().clone();
            let out = std::process::Command::new(&exe).args([id.as_str(), "--big", "0", "1", tier.name(), &i.to_string()]).output().map_err(|e| Violation::new("big.infrastructure", e.to_string()))?;
            let text = String::from_utf8_lossy(&out.stdout).to_string();
            if out.status.success() {
                return Ok(());
            }
            return Err(Violation::new(format!("{}.abort-on-large-input", id.to_lowercase()), format!("child ended with {}: {}", out.status, truncate(&text, 2000))));
        }
    }
    oracle(&c.input(), c.ext, c.conv, &mut Stats::default())
}
