//! C07 — diagnostics are sound, complete and placed on the offending construct.

use cooklang::error::{Severity, Stage};
use cooklang::Extensions;
use proptest::prelude::*;
use serde::{Deserialize, Serialize};
use serde_json::json;

use crate::common::*;
use crate::gen_recipe::*;
use crate::inputs::*;
use crate::inv;
use crate::model::*;
use crate::pipeline::*;
use crate::print::*;
use crate::{vbail, vensure};

// ---------------------------------------------------------------------------
// soundness

#[derive(Debug, Clone, Serialize, Deserialize)]
pub struct SoundCase {
    pub raw: RawRecipe,
    pub subsets: Vec<usize>,
}

fn check_sound(c: &SoundCase, st: &mut Stats) -> Verdict {
    let m = build(&c.raw, true);
    let (src, feats) = print_recipe(&m, &c.raw.tape);
    let ext = m.level == Level::Ext;
    crate::c01::classify(&m, &feats, st);
    // the `>>` deprecation notice is the only documented warning of a well-formed recipe
    let allowed = if m.blocks.iter().any(|b| matches!(b, BlockM::Meta(_, _))) { 1 } else { 0 };
    let mut configs: Vec<(usize, u8)> = if ext { vec![(EXT_ALL, 1)] } else { vec![(EXT_EMPTY, 0), (EXT_EMPTY, 1), (EXT_ALL, 1)] };
    if !ext {
        configs.extend(c.subsets.iter().map(|s| (*s % N_EXT, 1)));
    }
    if m.blocks.iter().any(|b| matches!(b, BlockM::Step(t) if t.iter().any(|x| matches!(x.tok, TokM::Comp(_) | TokM::Timer(_))))) {
        st.nontrivial(&src);
    }
    st.sample(|| json!({"source": src}));
    for (e, conv) in configs {
        let res = match guard(|| parser(e, conv).parse(&src)) {
            Ok(r) => r,
            Err(p) => vbail!("c07.panic", "parse panicked: {p}; source {src:?}"),
        };
        let errors: Vec<String> = res.report().errors().map(|d| format!("{} {:?}", d.message, d.labels)).collect();
        vensure!(errors.is_empty(), "c07.error-on-well-formed", "well-formed recipe gets errors {errors:?} under {}; source {src:?}", ext_name(e));
        let warnings: Vec<String> = res.report().warnings().map(|d| format!("{} {:?}", d.message, d.labels)).collect();
        vensure!(
            warnings.len() <= allowed,
            "c07.warning-on-well-formed",
            "well-formed recipe gets warnings {warnings:?} under {} (only the `>>` deprecation notice is documented: {allowed} allowed); source {src:?}",
            ext_name(e)
        );
        if allowed == 1 {
            vensure!(warnings.len() == 1, "c07.deprecation-notice-missing", "`>>` entries are used but no deprecation notice was given under {}; source {src:?}", ext_name(e));
        }
        vensure!(res.is_valid(), "c07.validity-definition", "no errors but is_valid() is false; source {src:?}");
    }
    Ok(())
}

// ---------------------------------------------------------------------------
// soundness, marker text: a marker followed by modifier characters but by no component is text

const MARKER_MODIFIERS: [&str; 12] = ["??", "++", "&&", "?+", "+?-&", "&(above)", "&(as said)", "&(x)&(y)", "-", "@", "&", "?&+"];
// (a continuation that starts with punctuation gets the documented "Invalid single word name" warning: not generated)
const MARKER_TAILS: [&str; 6] = [" maybe", "", " .", " if you like, or not", " ) already", " \u{a0}"];
const MARKER_CONTEXTS: [&str; 6] = [
    "{S}",
    "Mix @salt{1%g} well. Season to taste {S}",
    "(as said {S} ) then add @water{1%l}.",
    "= Sauce\n\nStir.\n\n{S}\n\nServe with #spoon{}.",
    "Heat #pan{} for ~{5%min}, {S}",
    "> {S}",
];

#[derive(Debug, Clone, Serialize, Deserialize)]
pub struct MarkerCase {
    pub marker: u8,
    pub modifiers: u8,
    pub tail: u8,
    pub context: u8,
}

fn marker_text(c: &MarkerCase) -> (String, String) {
    let snippet = format!("{}{}{}", ["@", "#", "~"][c.marker as usize % 3], MARKER_MODIFIERS[c.modifiers as usize % MARKER_MODIFIERS.len()], MARKER_TAILS[c.tail as usize % MARKER_TAILS.len()]);
    (MARKER_CONTEXTS[c.context as usize % MARKER_CONTEXTS.len()].replace("{S}", &snippet), snippet)
}

fn check_marker_text(c: &MarkerCase, st: &mut Stats) -> Verdict {
    let (src, snippet) = marker_text(c);
    st.sample(|| json!({"source": src}));
    let res = match guard(|| parser(EXT_ALL, 1).parse(&src)) {
        Ok(r) => r,
        Err(p) => vbail!("c07.panic", "parse panicked: {p}; source {src:?}"),
    };
    let diags: Vec<String> = res.report().iter().map(|d| format!("{:?} {} {:?}", d.severity, d.message, d.labels)).collect();
    vensure!(
        diags.is_empty(),
        "c07.error-on-well-formed",
        "`{snippet}` has no name and no braces, so it is text, yet the extended parser reports {diags:?}; source {src:?}"
    );
    vensure!(res.is_valid(), "c07.validity-definition", "no errors but is_valid() is false; source {src:?}");
    st.nontrivial(&src);
    Ok(())
}

// ---------------------------------------------------------------------------
// completeness / placement

#[derive(Debug, Clone, Serialize, Deserialize)]
pub struct InjectCase {
    pub raw: RawRecipe,
    pub construct: u8,
    pub variant: u8,
    pub pos: u16,
    pub subset: usize,
}

struct Injection {
    /// lines to insert before the construct's own step (context such as definitions / mode switches)
    prelude: Vec<String>,
    /// text of the step; `{}` is replaced by the construct
    construct: String,
    needs: Extensions,
    what: &'static str,
    stage: Stage,
    whole_file: bool,
    /// must be placed at the top of the Cooklang part (needs to know what precedes it)
    at_top: bool,
}

const N_CONSTRUCTS: u8 = 35;

fn injection(kind: u8, variant: u8) -> Injection {
    let v = variant as usize;
    let e = Extensions::empty();
    let (prelude, construct, needs, what, stage): (Vec<&str>, String, Extensions, &'static str, Stage) = match kind % N_CONSTRUCTS {
        0 => (vec![], ["@{}", "#{}", "@{2%kg}", "@ {}", "@\u{a0}{}", "#\u{2009}{}", "@\u{3000}{1%kg}", "@ \u{a0} {}"][v % 8].into(), e, "empty name", Stage::Parse),
        1 => (vec![], ["@zzq{1/0}", "@zzq{2 1/0%kg}", "#zzq{1/0}", "~zzq{1/0%min}", "@zzq{ 3 / 0 }"][v % 5].into(), e, "zero denominator", Stage::Parse),
        2 => (vec![], ["@zzq{%kg}", "@zzq{ %kg}", "@zzq{ % kg }"][v % 3].into(), e, "empty value", Stage::Parse),
        3 if v % 5 >= 3 => (vec![], ["#zzq{2 large}", "#zzq pot{1/2 kg}"][v % 2].into(), Extensions::ADVANCED_UNITS, "unit on cookware", Stage::Parse),
        3 => (vec![], ["#zzq{1%kg}", "#zzq pot{2 % big ones}", "#zzq{a few%kg}"][v % 3].into(), e, "unit on cookware", Stage::Parse),
        4 => (vec![], ["~zzq{5}", "~{5}", "~zzq{1/2}", "~{ 10 }", "~{25%}", "~zzq{25 % }"][v % 6].into(), e, "timer without unit", Stage::Parse),
        5 => (vec![], ["~zzq{}", "~zzq"][v % 2].into(), Extensions::TIMER_REQUIRES_TIME, "timer without duration", Stage::Parse),
        6 => (vec![], ["~{}", "~\u{a0}{}", "~ {}"][v % 3].into(), e, "timer with neither name nor duration", Stage::Parse),
        7 => (vec![], ["@??zzq{}", "#?-?zzq{}", "@-?-zzq{1%kg}", "@++zzq{}"][v % 4].into(), Extensions::COMPONENT_MODIFIERS, "duplicate modifier", Stage::Parse),
        8 => (vec![], ["#@zzq{}", "#?@zzq{2}"][v % 2].into(), Extensions::COMPONENT_MODIFIERS, "recipe modifier on cookware", Stage::Parse),
        9 => (vec![], ["#&(1)zzq{}", "#&(~1)zzq{}"][v % 2].into(), Extensions::INTERMEDIATE_PREPARATIONS, "intermediate reference on cookware", Stage::Parse),
        10 => (vec![], ["~?zzq{5%min}", "~&zzq{5%min}", "~-{5%min}"][v % 3].into(), Extensions::COMPONENT_MODIFIERS, "modifiers on timer", Stage::Parse),
        11 => (vec![], ["@zzq|{}", "#zzq| {}", "@zzq | {1%kg}", "@zzq|\u{3000}{}", "#zzq|\u{a0}{}", "@zzq|[- todo -]{200%g}", "#zzq| [- todo -] {}", "@zzq|\n{1%kg}", "@zzq| -- c\n{}"][v % 9].into(), Extensions::COMPONENT_ALIAS, "empty alias", Stage::Parse),
        12 => (vec![], ["@zzq|a|b{}", "#zzq|a|b|c{}"][v % 2].into(), Extensions::COMPONENT_ALIAS, "multiple aliases", Stage::Parse),
        13 => (vec![], ["~zzq|a{5%min}", "~zzq|nap{1%h}"][v % 2].into(), Extensions::COMPONENT_ALIAS, "alias on timer", Stage::Parse),
        14 => (vec![], ["@&zzq{}", "#&zzq{}", "@&zzq{1%kg}", "@&zzq"][v % 4].into(), Extensions::COMPONENT_MODIFIERS, "dangling reference", Stage::Analysis),
        15 => (vec![], ["@&+zzq{}", "#+&zzq{}"][v % 2].into(), Extensions::COMPONENT_MODIFIERS, "new combined with reference", Stage::Analysis),
        16 => (vec!["Take @zzq{1%kg} first."], ["@&?zzq{}", "@&-zzq{}", "@-&zzq{2%kg}"][v % 3].into(), Extensions::COMPONENT_MODIFIERS, "modifier not inherited from the definition on a reference", Stage::Analysis),
        17 => (vec!["Take @zzq{1%kg} first."], ["@&zzq{}(chopped)", "@&zzq{2%kg}(x)", "@&zzq{}(-- é\nx)", "@&zzq{}([- ü -] x)", "@&zzq{}(x [- é -])"][v % 5].into(), Extensions::COMPONENT_MODIFIERS, "note on a reference", Stage::Analysis),
        18 => (vec!["Take #zzq{} first."], ["#&zzq{}(big)", "#&zzq{}(-- é\n big)", "#&zzq{}([-é-]big)"][v % 3].into(), Extensions::COMPONENT_MODIFIERS, "note on a reference", Stage::Analysis),
        19 => (
            vec![">> [mode]: components", "@zzq{1%kg}", ">> [mode]: all"],
            ["@&zzq{2%kg}", "@&zzq{some}"][v % 2].into(),
            Extensions::COMPONENT_MODIFIERS | Extensions::MODES,
            "reference quantity conflicting with a definition outside a step",
            Stage::Analysis,
        ),
        20 => (vec![], ["@&(0)zzq{}", "@&(~0)zzq{}", "@&(=0)zzq{}", "@&(=~0)zzq{}"][v % 4].into(), Extensions::INTERMEDIATE_PREPARATIONS, "intermediate reference to 0", Stage::Analysis),
        21 => (vec![], ["@&(99)zzq{}", "@&(~99)zzq{}", "@&(=99)zzq{}", "@&(=~99)zzq{}"][v % 4].into(), Extensions::INTERMEDIATE_PREPARATIONS, "intermediate reference out of range", Stage::Analysis),
        22 => (vec!["Mix zzqa and zzqb."], ["@&(~1)-zzq{}", "@&(1)@zzq{}", "@+&(~1)zzq{}", "@&(~1)+zzq{}", "@&(=~1)+zzq{}"][v % 5].into(), Extensions::INTERMEDIATE_PREPARATIONS, "intermediate reference with conflicting modifiers", Stage::Analysis),
        23 => (vec![], [">> [mode]: bogus", ">> [duplicate]: maybe", ">> [define]: everything"][v % 3].into(), Extensions::MODES, "bad mode value", Stage::Analysis),
        24 => (vec![], ["~zzq{5%kg}", "~{2%cups}", "~zzq{1%cm}"][v % 3].into(), Extensions::ADVANCED_UNITS, "non-time timer unit", Stage::Analysis),
        25 => (vec![], ["~zzq{5%zorks}", "~{2%blinks}"][v % 2].into(), Extensions::ADVANCED_UNITS, "unknown timer unit", Stage::Analysis),
        26 => (vec![], ["~zzq{a while%min}", "~{some%h}"][v % 2].into(), Extensions::ADVANCED_UNITS, "text timer value", Stage::Analysis),
        27 => (vec![], ["@&(~=1)zzq{}", "@&(x)zzq{}", "@&()zzq{}", "@&(-1)zzq{}"][v % 4].into(), Extensions::INTERMEDIATE_PREPARATIONS, "malformed intermediate reference", Stage::Parse),
        28 => (vec![], ["@zzq{4294967296/2}", "@zzq{1 99999999999/2%kg}"][v % 2].into(), e, "integer overflow in a fraction", Stage::Parse),
        29 => (vec![], String::new(), e, "malformed front matter", Stage::Analysis),
        31 => (vec![], ["@zzq{1/0-2%cups}", "@zzq{1-1/0}", "#zzq{1-2 1/0}", "~zzq{1-1/0%min}", "@zzq{2 1/0 - 3%kg}"][v % 5].into(), Extensions::RANGE_VALUES, "zero denominator", Stage::Parse),
        33 => (vec![], ["@zzq{1/0 kg}", "@zzq{2 1/0 cups}", "@zzq{1-3/0 tbsp}", "~zzq{1/0 min}", "@zzq{=1/0 kg}"][v % 5].into(), Extensions::ADVANCED_UNITS | Extensions::RANGE_VALUES, "zero denominator", Stage::Parse),
        34 => (vec!["Mix zzqa and zzqb."], ["@&(1)&(1)zzq{}", "#&(1)&(1)zzq{}", "@&(~1)?&(1)zzq{}"][v % 3].into(), Extensions::INTERMEDIATE_PREPARATIONS, "duplicate modifier", Stage::Parse),
        32 => (vec![">> [mode]: steps"], ["@zzq{}", "#zzq{}", "@zzq{1%kg}", "@zzq"][v % 4].into(), Extensions::MODES, "dangling reference", Stage::Analysis),
        _ => (
            // no step precedes it in its section, only text paragraphs
            [vec!["> a paragraph, not a step"], vec!["> one", "> two"], vec!["> one", "> two", "> three"]][v % 3].clone(),
            ["@&(~1)zzq{}", "@&(~2)zzq{}", "@&(1)zzq{}"][v / 3 % 3].into(),
            Extensions::INTERMEDIATE_PREPARATIONS,
            "intermediate reference out of range",
            Stage::Analysis,
        ),
    };
    Injection {
        prelude: prelude.into_iter().map(String::from).collect(),
        construct,
        needs,
        what,
        stage,
        whole_file: kind % N_CONSTRUCTS == 29,
        at_top: kind % N_CONSTRUCTS == 30,
    }
}

fn touches(label: cooklang::Span, start: usize, end: usize) -> bool {
    label.start() <= end && label.end() >= start
}

fn check_inject(c: &InjectCase, st: &mut Stats) -> Verdict {
    let mut raw = c.raw.clone();
    raw.ext = false;
    let inj = injection(c.construct, c.variant);
    let mut m = build(&raw, true);
    if inj.whole_file {
        m.front = None;
        m.blocks.retain(|b| !matches!(b, BlockM::StepLine(_)));
    }
    let (base, _) = print_recipe(&m, &raw.tape);
    let base = base.replace("\r\n", "\n");
    // insertion point: the start of a block (a line following an empty line) of the Cooklang part, or its top
    let body_start = if m.front.is_some() {
        let mut fences = 0;
        let mut off = 0;
        for line in base.split_inclusive('\n') {
            off += line.len();
            if line.trim_end() == "---" {
                fences += 1;
                if fences == 2 {
                    break;
                }
            }
        }
        off
    } else {
        0
    };
    let (src, range) = if inj.whole_file {
        let bad = ["key: [unclosed", "a: b: c: [", "- just\n- a list", "\"unterminated: 1", "k: {a: 1"][c.variant as usize % 5];
        let fm = format!("---\n{bad}\n---\n");
        let len = fm.len();
        // blank lines (or a byte order mark on a line of its own) may come before the opening fence
        let lead = ["", "\n", "\n\n\n\n\n\n", "\u{feff}\n", "  \n \n\n"][c.variant as usize / 5 % 5];
        (format!("{lead}{fm}{base}"), (lead.len(), lead.len() + len))
    } else {
        let mut points = vec![body_start];
        let bytes = base.as_bytes();
        for i in body_start..base.len().saturating_sub(1) {
            if bytes[i] == b'\n' && bytes[i + 1] == b'\n' && i + 2 <= base.len() {
                points.push(i + 2);
            }
        }
        // a block comment spanning lines never contains an empty line (see print.rs), so these are block starts
        let at = if inj.at_top { body_start } else { points[(c.pos as usize * points.len()) >> 16] };
        let mut ins = String::new();
        for l in &inj.prelude {
            ins.push_str(l);
            ins.push_str(if l.starts_with(">>") { "\n" } else { "\n\n" });
        }
        let is_line = inj.construct.starts_with(">>");
        let lead = if is_line { "" } else { ["Take ", "", "Now add the ", "("][c.variant as usize / 7 % 4] };
        let tail = if is_line { "" } else { [" now.", "", " and stir", " ) ok"][c.variant as usize / 11 % 4] };
        let cstart = at + ins.len() + lead.len();
        ins.push_str(lead);
        ins.push_str(&inj.construct);
        ins.push_str(tail);
        ins.push_str("\n\n");
        let mut s = String::with_capacity(base.len() + ins.len());
        s.push_str(&base[..at]);
        s.push_str(&ins);
        s.push_str(&base[at..]);
        (s, (cstart, cstart + inj.construct.len()))
    };
    // extension sets: a superset of what the check needs
    let chosen = ALL_EXTS[c.subset % N_EXT] | inj.needs;
    let sets = [Extensions::all(), inj.needs, chosen];
    st.class(inj.what);
    st.nontrivial(&(src.as_str(), c.subset % N_EXT));
    st.sample(|| json!({"construct": inj.construct, "what": inj.what, "source": src}));
    for ext in sets {
        let p = cooklang::CooklangParser::new(ext, BUNDLED.clone());
        let res = match guard(|| p.parse(&src)) {
            Ok(r) => r,
            Err(e) => vbail!("c07.panic", "parse panicked: {e}; source {src:?}"),
        };
        let errs: Vec<&cooklang::error::SourceDiag> = res.report().iter().filter(|d| d.severity == Severity::Error).collect();
        vensure!(
            !errs.is_empty(),
            format!("c07.missing-diagnostic.{}", inj.what.replace(' ', "-")),
            "{}: `{}` produced no error under {ext:?}; source {src:?}",
            inj.what,
            inj.construct
        );
        vensure!(!res.is_valid(), "c07.validity-definition", "errors reported but is_valid() is true; source {src:?}");
        // the diagnostic can be shown
        match guard(|| render_report(res.report(), &src)) {
            Ok(Ok(())) => {}
            Ok(Err(e)) => vbail!("c07.report-unrenderable", "{}: {e}; source {src:?}", inj.what),
            Err(p) => vbail!("c07.report-unrenderable", "{}: rendering the report panicked: {p}; source {src:?}", inj.what),
        }
        let placed = errs.iter().any(|d| {
            if inj.whole_file {
                // serde_yaml does not always give a location: a label, if present, lies in the front matter
                d.labels.first().map_or(true, |(s, _)| s.start() >= range.0 && s.end() <= range.1)
            } else {
                d.labels.first().is_some_and(|(s, _)| touches(*s, range.0, range.1))
            }
        });
        vensure!(
            placed,
            format!("c07.misplaced-diagnostic.{}", inj.what.replace(' ', "-")),
            "{}: no error has its primary label on `{}` at {}..{}; errors: {:?}; extensions {ext:?}; source {src:?}",
            inj.what,
            inj.construct,
            range.0,
            range.1,
            errs.iter().map(|d| format!("{} {:?}", d.message, d.labels)).collect::<Vec<_>>()
        );
        // stage consequences
        let parse_err = errs.iter().any(|d| d.stage == Stage::Parse);
        if inj.stage == Stage::Parse {
            vensure!(parse_err && !res.has_output(), "c07.output-despite-parse-error", "{}: a parse-stage error must suppress the output; source {src:?}", inj.what);
            vensure!(res.report().iter().all(|d| d.stage == Stage::Parse), "c07.analysis-diagnostic-after-parse-error", "analysis diagnostics survive next to a parse error; source {src:?}");
        } else {
            vensure!(!parse_err && res.has_output(), "c07.no-output-without-parse-error", "{}: an analysis error keeps the output (parse errors: {parse_err}); source {src:?}", inj.what);
        }
    }
    Ok(())
}

// ---------------------------------------------------------------------------

fn structure_oracle(input: &str, ext: usize, conv: u8, st: &mut Stats) -> Verdict {
    inv::c07_structure(input, ext, conv, st)
}

pub fn run(tier: Tier) -> i32 {
    let mut run = Run::new("C07", tier);
    run.assume("well-formed = produced by the generator in strict mode (no redundant modifiers, references with matching value kind and unit, no text in components mode, valid standard metadata); the `>>` deprecation notice is recognised by count (exactly one warning iff `>>` entries are used), messages are never matched");
    run.assume("invalid constructs are injected as their own step at a block start of a Core-level recipe (which parses cleanly under every extension subset), with fresh names; placement = the primary label overlaps or abuts the printed construct");
    run.replay_regressions(&|part, j| match part {
        "soundness" => check_sound(&case_from(j)?, &mut Stats::default()),
        "injected" => check_inject(&case_from(j)?, &mut Stats::default()),
        "marker-text" => check_marker_text(&case_from(j)?, &mut Stats::default()),
        _ => replay_input(j, &structure_oracle),
    });
    if !run.failed() {
        run_prop(
            &mut run,
            "soundness",
            "strictly well-formed generated recipes of both levels with random spelling: Ext under the extended parser, Core under canonical, no-extension+bundled, all, and 3 random subsets; no error, no warning except exactly one deprecation notice when `>>` entries are used; non-trivial = has a component; distinct = distinct source",
            || (raw_recipe(None), proptest::collection::vec(0usize..N_EXT, 3)).prop_map(|(raw, subsets)| SoundCase { raw, subsets }),
            tier.pick(20_000, 2_000_000),
            check_sound,
        );
    }
    if !run.failed() {
        run_prop(
            &mut run,
            "marker-text",
            "a marker (@ # ~) followed by one of 12 runs of modifier characters (doubled, mixed, with parenthesised text) and one of 6 continuations that are no name and no braces, in 6 well-formed contexts, under the extended parser: it is text, so no diagnostic at all and a valid result; every case is non-trivial",
            || (0u8..3, 0u8..MARKER_MODIFIERS.len() as u8, 0u8..MARKER_TAILS.len() as u8, 0u8..MARKER_CONTEXTS.len() as u8).prop_map(|(marker, modifiers, tail, context)| MarkerCase { marker, modifiers, tail, context }),
            tier.pick(3_000, 30_000),
            check_marker_text,
        );
    }
    if !run.failed() {
        run_prop(
            &mut run,
            "injected",
            &format!("{N_CONSTRUCTS} cataloged invalid constructs x variants, placed (with the context they need) at a random block start of a well-formed Core recipe inside varying surrounding text, parsed under all extensions, the minimal enabling set and a random superset: an error must be reported, the result invalid, the primary label on the construct, and the stage consequences (parse error: no output, no analysis diagnostics; analysis error: output kept) must hold; every case is non-trivial"),
            || (raw_recipe(Some(false)), 0u8..N_CONSTRUCTS, any::<u8>(), any::<u16>(), 0usize..N_EXT).prop_map(|(raw, construct, variant, pos, subset)| InjectCase { raw, construct, variant, pos, subset }),
            tier.pick(20_000, 2_000_000),
            check_inject,
        );
    }
    if !run.failed() {
        let mut b = budget(tier, 0.5);
        b.exhaustive_len_main = tier.pick(3, 4) as u32;
        run_inputs(&mut run, &b, "structure clauses on arbitrary input: non-trivial = a parse-stage or analysis error was reported", &structure_oracle);
        crate::recipe_inputs::run_recipe_inputs(&mut run, &b, "structure clauses; non-trivial = an error was reported", &structure_oracle);
        if tier == Tier::Thorough && !run.failed() {
            crate::fuzzleg::run_fuzz_leg(&mut run, 8_000_000, &structure_oracle);
        }
    }
    run.finish()
}

pub fn replay(part: &str, j: &serde_json::Value) -> Verdict {
    match part {
        "soundness" => check_sound(&case_from(j)?, &mut Stats::default()),
        "injected" => check_inject(&case_from(j)?, &mut Stats::default()),
        "marker-text" => check_marker_text(&case_from(j)?, &mut Stats::default()),
        _ => replay_input(j, &structure_oracle),
    }
}
