//! E1 printer: RecipeM + spelling tape -> Cooklang source text.

use crate::model::*;

pub struct Tape<'a> {
    t: &'a [u16],
    i: usize,
}

impl<'a> Tape<'a> {
    pub fn new(t: &'a [u16]) -> Self {
        Tape { t, i: 0 }
    }
    /// choice in 0..n; 0 (the plainest) once the tape is exhausted; monotone in the tape value
    pub fn pick(&mut self, n: u32) -> u32 {
        let v = self.t.get(self.i).copied().unwrap_or(0) as u32;
        self.i += 1;
        (v * n) >> 16
    }
    /// true with probability ~ num/den, false on exhausted tape
    pub fn chance(&mut self, num: u32, den: u32) -> bool {
        self.pick(den) >= den - num
    }
}

#[derive(Default, Debug, Clone)]
pub struct Features {
    pub soft_wraps: u32,
    pub comments: u32,
    pub escapes: u32,
    pub odd_spacing: u32,
    pub crlf: bool,
    /// lines of text paragraphs whose words are not separated by exactly one ASCII blank
    pub loose_text_lines: u32,
}

pub struct Printer<'a> {
    pub out: String,
    pub tape: Tape<'a>,
    pub f: Features,
    ext: bool,
    /// spelling variation off: the plainest spelling (used as the reference text in C17 etc.)
    plain: bool,
}

const COMMENTS: &[&str] = &["[- c -]", "[- note: x -]", "[--]", "[- @x{1} -]", "[-- note --]", "[---]", "[- x --]", "[- a - b -]", "[- é ] -]", "[- a\nb -]"];
const LINE_COMMENTS: &[&str] = &["-- c", "--", "-- @y{2%kg} >> k: v", "--- dashes", "-- é", "-- 😀"];

impl<'a> Printer<'a> {
    pub fn new(tape: &'a [u16], ext: bool, plain: bool) -> Self {
        Printer { out: String::new(), tape: Tape::new(tape), f: Features::default(), ext, plain }
    }

    fn blanks(&mut self) -> String {
        // optional extra blanks (spaces / tab)
        if self.plain {
            return String::new();
        }
        match self.tape.pick(8) {
            0..=4 => String::new(),
            5 => {
                self.f.odd_spacing += 1;
                " ".into()
            }
            6 => {
                self.f.odd_spacing += 1;
                "  ".into()
            }
            _ => {
                self.f.odd_spacing += 1;
                "\t".into()
            }
        }
    }

    /// blanks or a block comment between the tokens of a numeric value (both are ignored there)
    fn num_sep(&mut self) -> String {
        if !self.plain && self.tape.chance(1, 8) {
            self.f.comments += 1;
            return [" [- c -] ", "[- c -]", " [- about -]"][self.tape.pick(3) as usize].to_string();
        }
        self.blanks()
    }

    fn maybe_block_comment(&mut self, allow_multiline: bool) -> String {
        if self.plain || !self.tape.chance(1, 10) {
            return String::new();
        }
        self.f.comments += 1;
        let n = if allow_multiline { COMMENTS.len() } else { COMMENTS.len() - 1 };
        COMMENTS[self.tape.pick(n as u32) as usize].to_string()
    }

    /// a separator between two words *inside* a name / unit / note / metadata text: exactly one
    /// ASCII space in the meaning; spelled as one or more spaces, optionally with a block comment
    fn inner_space(&mut self) -> String {
        if self.plain {
            return " ".into();
        }
        match self.tape.pick(10) {
            0..=6 => " ".into(),
            7 => {
                self.f.odd_spacing += 1;
                "   ".into()
            }
            8 => {
                self.f.comments += 1;
                " [- c -] ".into()
            }
            _ => {
                self.f.comments += 1;
                " [- c -]".into()
            }
        }
    }

    fn words(&mut self, s: &str) -> String {
        let mut out = String::new();
        for (i, w) in s.split(' ').enumerate() {
            if i > 0 {
                out.push_str(&self.inner_space());
            }
            out.push_str(w);
        }
        out
    }

    fn num(&mut self, n: &NumM) -> String {
        match n {
            NumM::Int(i) => i.to_string(),
            NumM::Dec(s) => s.clone(),
            NumM::Frac(a, b) => {
                let s1 = self.num_sep();
                let s2 = self.num_sep();
                format!("{a}{s1}/{s2}{b}")
            }
            NumM::Mixed(w, a, b) => {
                let s1 = self.num_sep();
                let s2 = self.num_sep();
                let s0 = self.num_sep();
                format!("{w} {s0}{a}{s1}/{s2}{b}")
            }
        }
    }

    fn value(&mut self, v: &ValM) -> String {
        match v {
            ValM::Num(n) => self.num(n),
            ValM::Range(a, b) => {
                let a = self.num(a);
                let s1 = self.num_sep();
                let s2 = self.num_sep();
                let b = self.num(b);
                format!("{a}{s1}-{s2}{b}")
            }
            ValM::Text(t) => self.words(t),
        }
    }

    /// blank space inside braces: like `blanks`, and now and then the step is wrapped there (a line break,
    /// possibly after a line comment), which reads as a blank
    fn brace_blanks(&mut self) -> String {
        if !self.plain && self.tape.chance(1, 14) {
            self.f.soft_wraps += 1;
            return ["\n", " \n ", " -- c\n", "\n\t"][self.tape.pick(4) as usize].to_string();
        }
        self.blanks()
    }

    fn qty(&mut self, q: &QtyM) -> String {
        let mut s = String::new();
        // (never a line break before `=`: a line starting with `=` is a section header)
        s.push_str(&if q.lock { self.blanks() } else { self.brace_blanks() });
        if q.lock {
            s.push('=');
            s.push_str(&self.brace_blanks());
        }
        s.push_str(&self.value(&q.value));
        if let Some(u) = &q.unit {
            if q.blank_sep {
                // a blank or a line break separates value and unit
                if !self.plain && self.tape.chance(1, 10) {
                    self.f.soft_wraps += 1;
                    s.push('\n');
                } else {
                    s.push(' ');
                }
                s.push_str(&self.blanks());
                // comments next to the separating blank vanish
                if !self.plain && self.tape.chance(1, 10) {
                    self.f.comments += 1;
                    s.push_str(["[- c -]", "[- c -] ", "[-é-]"][self.tape.pick(3) as usize]);
                }
                // the unit text of the blank form runs to the closing brace
                s.push_str(&self.words(u));
            } else {
                s.push_str(&self.brace_blanks());
                s.push('%');
                s.push_str(&self.brace_blanks());
                s.push_str(&self.words(u));
            }
        }
        s.push_str(&self.brace_blanks());
        s
    }

    fn mods(&mut self, c: &CompM) -> String {
        if !self.ext {
            return String::new();
        }
        let mut parts: Vec<String> = vec![];
        if c.mods & M_RECIPE != 0 {
            parts.push("@".into());
        }
        if c.mods & M_REF != 0 {
            let mut s = String::from("&");
            if let Some(i) = c.inter {
                let inner = match i {
                    InterM::StepNumber(n) => format!("{n}"),
                    InterM::StepBack(n) => format!("~{n}"),
                    InterM::SectionNumber(n) => format!("={n}"),
                    InterM::SectionBack(n) => format!("=~{n}"),
                };
                // the step may be wrapped inside the parentheses (not right before `=`: that line would be a
                // section header)
                let a = if inner.starts_with('=') { self.blanks() } else { self.brace_blanks() };
                let b = self.brace_blanks();
                s.push_str(&format!("({a}{inner}{b})"));
            }
            parts.push(s);
        }
        if c.mods & M_HIDDEN != 0 {
            parts.push("-".into());
        }
        if c.mods & M_OPT != 0 {
            parts.push("?".into());
        }
        if c.mods & M_NEW != 0 {
            parts.push("+".into());
        }
        // any order
        if !self.plain && parts.len() > 1 {
            let k = self.tape.pick(parts.len() as u32) as usize;
            parts.rotate_left(k);
        }
        parts.concat()
    }

    fn comp(&mut self, c: &CompM) -> String {
        let mut s = String::new();
        s.push(match c.kind {
            Kind::Ingredient => '@',
            Kind::Cookware => '#',
        });
        s.push_str(&self.mods(c));
        if !c.braces {
            s.push_str(&c.name);
        } else {
            // inside braces-form names, outer blanks are trimmed away
            let name = self.words(&c.name);
            s.push_str(&name);
            if let Some(a) = &c.alias {
                s.push_str(&self.blanks());
                s.push('|');
                s.push_str(&self.blanks());
                let a = self.words(a);
                s.push_str(&a);
            }
            s.push_str(&self.blanks());
            s.push('{');
            match &c.qty {
                Some(q) => s.push_str(&self.qty(q)),
                // empty braces may hold blanks and comments
                None if !self.plain && self.tape.chance(1, 10) => {
                    self.f.comments += 1;
                    s.push_str(["[- to taste -]", " [- 1%tsp -] ", " [-é-]"][self.tape.pick(3) as usize]);
                }
                None => s.push_str(&self.brace_blanks()),
            }
            s.push('}');
        }
        if let Some(n) = &c.note {
            s.push('(');
            // a comment may sit between the parenthesis and the note text; a line comment ends the line, the
            // note goes on below
            if !self.plain && self.tape.chance(1, 8) {
                self.f.comments += 1;
                s.push_str(["[- é -]", "-- é\n", " [-- ü --] ", "-- see the café\n  "][self.tape.pick(4) as usize]);
            }
            s.push_str(&self.blanks());
            let n = self.words(n);
            s.push_str(&n);
            s.push_str(&self.blanks());
            s.push(')');
        }
        s
    }

    fn timer(&mut self, t: &TimerM) -> String {
        let mut s = String::from("~");
        if let Some(n) = &t.name {
            s.push_str(&self.words(n));
        }
        if t.braces {
            s.push_str(&self.blanks());
            s.push('{');
            match &t.qty {
                Some(q) => s.push_str(&self.qty(q)),
                None => {}
            }
            s.push('}');
        }
        s
    }

    fn escape_word(&mut self, w: &str) -> String {
        // optional escaping of an ordinary character of a word in step text
        if self.plain || !self.tape.chance(1, 16) {
            return w.to_string();
        }
        let n = w.chars().count();
        let k = self.tape.pick(n as u32) as usize;
        self.f.escapes += 1;
        let mut out = String::new();
        for (i, c) in w.chars().enumerate() {
            if i == k {
                out.push('\\');
            }
            out.push(c);
        }
        out
    }

    fn step(&mut self, toks: &[StepTok]) {
        for (i, st) in toks.iter().enumerate() {
            // separator
            if i > 0 && st.space_before {
                let wrap_ok = matches!(st.tok, TokM::Word(_) | TokM::Comp(_) | TokM::Timer(_));
                let prev_inline = matches!(toks[i - 1].tok, TokM::Num(_));
                let choice = if self.plain { 0 } else { self.tape.pick(12) };
                match choice {
                    0..=6 => self.out.push(' '),
                    7 => {
                        self.f.odd_spacing += 1;
                        self.out.push_str("  ")
                    }
                    8 => {
                        self.f.odd_spacing += 1;
                        self.out.push_str(" \t")
                    }
                    9 if wrap_ok => {
                        self.f.soft_wraps += 1;
                        let a = self.blanks();
                        let b = self.blanks();
                        self.out.push_str(&format!("{a}\n{b}"));
                    }
                    10 if wrap_ok => {
                        self.f.soft_wraps += 1;
                        self.f.comments += 1;
                        let lc = LINE_COMMENTS[self.tape.pick(LINE_COMMENTS.len() as u32) as usize];
                        self.out.push_str(&format!(" {lc}\n"));
                    }
                    11 if !prev_inline => {
                        self.f.comments += 1;
                        let c = COMMENTS[self.tape.pick(COMMENTS.len() as u32) as usize];
                        let side = self.tape.pick(3);
                        match side {
                            0 => self.out.push_str(&format!(" {c}")),
                            1 => self.out.push_str(&format!("{c} ")),
                            _ => self.out.push_str(&format!(" {c} ")),
                        }
                    }
                    _ => self.out.push(' '),
                }
            } else if i > 0 {
                // no blank in the meaning: a comment may still sit here (it vanishes), except where it
                // would separate tokens that must stay glued for lexing reasons (never: comments are tokens)
                let both_text = matches!(toks[i - 1].tok, TokM::Word(_) | TokM::Punct(_)) && matches!(st.tok, TokM::Word(_) | TokM::Punct(_));
                if both_text {
                    let c = self.maybe_block_comment(false);
                    self.out.push_str(&c);
                }
            }
            match &st.tok {
                TokM::Word(w) => {
                    let w = self.escape_word(w);
                    self.out.push_str(&w)
                }
                TokM::Punct(p) => {
                    if !self.plain && self.tape.chance(1, 12) && p != "\\" {
                        self.f.escapes += 1;
                        self.out.push('\\');
                    }
                    self.out.push_str(p)
                }
                TokM::Escaped(c) => {
                    self.f.escapes += 1;
                    self.out.push('\\');
                    self.out.push(*c);
                }
                TokM::Num(n) => self.out.push_str(n),
                TokM::Raw(r) => self.out.push_str(r),
                TokM::Comp(c) => {
                    let s = self.comp(c);
                    self.out.push_str(&s)
                }
                TokM::Timer(t) => {
                    let s = self.timer(t);
                    self.out.push_str(&s)
                }
                TokM::Inline { number, unit, glued } => {
                    self.out.push_str(number);
                    if !*glued {
                        self.out.push(' ');
                        if !self.plain && self.tape.chance(1, 6) {
                            self.f.odd_spacing += 1;
                            self.out.push(' ');
                        }
                    }
                    self.out.push_str(unit);
                }
            }
        }
        // trailing blanks / comment at the end of the step
        if !self.plain {
            match self.tape.pick(10) {
                7 => {
                    self.f.odd_spacing += 1;
                    self.out.push_str("  ")
                }
                8 => {
                    self.f.comments += 1;
                    self.out.push_str(" -- done")
                }
                9 => {
                    self.f.comments += 1;
                    self.out.push_str(" [- end -]")
                }
                _ => {}
            }
        }
    }

    /// separator lines between two blocks. `need_blank`: a truly empty line is required
    fn between(&mut self, need_blank: bool) {
        self.out.push('\n');
        let extra = if self.plain { 0 } else { self.tape.pick(6) };
        let mut lines: Vec<String> = vec![];
        if need_blank {
            lines.push(String::new());
        }
        match extra {
            0..=2 => {}
            3 => lines.push(String::new()),
            4 => {
                self.f.comments += 1;
                lines.push("-- comment line".into());
            }
            _ => {
                self.f.comments += 1;
                self.f.odd_spacing += 1;
                lines.push("  [- block comment line -]  ".into());
                lines.push("\t".into());
            }
        }
        if need_blank && !self.plain && self.tape.chance(1, 8) {
            // whitespace-only line instead of an empty one
            self.f.odd_spacing += 1;
            lines[0] = "   ".into();
        }
        for l in lines {
            self.out.push_str(&l);
            self.out.push('\n');
        }
    }

    fn yaml(&mut self, v: &YamlM, indent: usize, flow: bool, out: &mut String) {
        match v {
            YamlM::Str(s) => out.push_str(&yaml_quote(s)),
            YamlM::Int(i) => out.push_str(&i.to_string()),
            YamlM::Float(f) => out.push_str(&format!("{f:?}")),
            YamlM::Bool(b) => out.push_str(if *b { "true" } else { "false" }),
            YamlM::Null => out.push_str("null"),
            YamlM::List(items) => {
                if flow || items.is_empty() {
                    out.push('[');
                    for (i, it) in items.iter().enumerate() {
                        if i > 0 {
                            out.push_str(", ");
                        }
                        self.yaml(it, indent, true, out);
                    }
                    out.push(']');
                } else {
                    for it in items {
                        out.push('\n');
                        out.push_str(&" ".repeat(indent));
                        out.push_str("- ");
                        match it {
                            YamlM::List(_) | YamlM::Map(_) => self.yaml(it, indent + 2, true, out),
                            _ => self.yaml(it, indent + 2, false, out),
                        }
                    }
                }
            }
            YamlM::Map(entries) => {
                if flow || entries.is_empty() {
                    out.push('{');
                    for (i, (k, it)) in entries.iter().enumerate() {
                        if i > 0 {
                            out.push_str(", ");
                        }
                        out.push_str(&yaml_quote(k));
                        out.push_str(": ");
                        self.yaml(it, indent, true, out);
                    }
                    out.push('}');
                } else {
                    for (k, it) in entries {
                        out.push('\n');
                        out.push_str(&" ".repeat(indent));
                        out.push_str(&yaml_quote(k));
                        out.push(':');
                        match it {
                            YamlM::List(l) if !l.is_empty() => self.yaml(it, indent + 2, false, out),
                            YamlM::Map(m) if !m.is_empty() => self.yaml(it, indent + 2, false, out),
                            _ => {
                                out.push(' ');
                                self.yaml(it, indent + 2, false, out)
                            }
                        }
                    }
                }
            }
        }
    }

    pub fn recipe(mut self, r: &RecipeM) -> (String, Features) {
        // a byte order mark on a line of its own is tolerated before a front matter (directly before the
        // fence, or without a front matter, it is text)
        if r.front.is_some() && !self.plain && self.tape.chance(1, 10) {
            self.f.odd_spacing += 1;
            self.out.push_str("\u{feff}\n");
        }
        // leading blank lines
        if !self.plain && self.tape.chance(1, 10) {
            self.out.push('\n');
        }
        if let Some(front) = &r.front {
            self.out.push_str("---");
            if !self.plain && self.tape.chance(1, 8) {
                self.out.push_str("  ");
            }
            self.out.push('\n');
            // YAML may begin with empty lines
            if !self.plain && !front.is_empty() && self.tape.chance(1, 10) {
                self.f.odd_spacing += 1;
                self.out.push_str(["\n", "\n\n", "# comment\n\n"][self.tape.pick(3) as usize]);
            }
            for (k, v) in front {
                let plain_key = k.chars().all(|c| c.is_ascii_alphabetic() || c == ' ') && !self.tape.chance(1, 6);
                let key = if plain_key { k.clone() } else { yaml_quote(k) };
                let flow = !self.plain && self.tape.chance(1, 2);
                let mut s = String::new();
                match v {
                    YamlM::List(l) if !l.is_empty() && !flow => self.yaml(v, 2, false, &mut s),
                    YamlM::Map(m) if !m.is_empty() && !flow => self.yaml(v, 2, false, &mut s),
                    _ => {
                        s.push(' ');
                        self.yaml(v, 2, flow, &mut s);
                    }
                }
                self.out.push_str(&format!("{key}:{s}\n"));
            }
            self.out.push_str("---");
            if !self.plain && self.tape.chance(1, 8) {
                self.out.push(' ');
            }
            self.out.push('\n');
        }
        let mut first = true;
        let mut prev_multiline = false; // previous block was a step / text block (needs an empty line after)
        for b in &r.blocks {
            let this_single = matches!(b, BlockM::Section(_) | BlockM::Mode(_) | BlockM::Meta(_, _) | BlockM::StepLine(_));
            if !first {
                // an empty line is required between two multi-line blocks; single-line blocks may abut
                let need_blank = !this_single && prev_multiline;
                let force = !need_blank && !self.plain && self.tape.chance(1, 3);
                self.between(need_blank || force || self.plain);
            }
            first = false;
            match b {
                BlockM::Section(name) => {
                    let style = if self.plain { 0 } else { self.tape.pick(4) };
                    let open = ["=", "==", "=", "==="][style as usize];
                    let close = ["", " ==", "=", ""][style as usize];
                    self.out.push_str(open);
                    if let Some(n) = name {
                        if style != 2 {
                            self.out.push(' ');
                        }
                        let bl = self.blanks();
                        self.out.push_str(&bl);
                        // a comment may stand between the markers and the name
                        if !self.plain && self.tape.chance(1, 10) {
                            self.f.comments += 1;
                            self.out.push_str(["[- c -] ", " [- é -]", "[-- x --] "][self.tape.pick(3) as usize]);
                        }
                        let n = self.words(n);
                        self.out.push_str(&n);
                        self.out.push_str(close);
                    } else if style == 1 {
                        self.out.push_str(" ==");
                    }
                    if !self.plain && self.tape.chance(1, 6) {
                        self.f.comments += 1;
                        // after the header: blanks and any number of comments
                        let t = [" -- section", " [- c -]", " [- c -] -- d", " [- a -] [- b -]  ", "[- c -][-- d --]\t", "  "][self.tape.pick(6) as usize];
                        self.out.push_str(t);
                    }
                    prev_multiline = false;
                }
                BlockM::Mode(m) => {
                    let (k, v): (&str, &[&str]) = match m {
                        ModeM::All => ("mode", &["all", "default"]),
                        ModeM::Components => ("mode", &["components", "ingredients"]),
                        ModeM::Steps => ("mode", &["steps"]),
                        ModeM::Text => ("mode", &["text"]),
                        ModeM::DupNew => ("duplicate", &["new", "default"]),
                        ModeM::DupRef => ("duplicate", &["ref", "reference"]),
                    };
                    let k = if k == "mode" && !self.plain && self.tape.chance(1, 3) { "define" } else { k };
                    let v = v[self.tape.pick(v.len() as u32) as usize];
                    let a = self.blanks();
                    let b2 = self.blanks();
                    let c = self.blanks();
                    self.out.push_str(&format!(">>{a} [{k}]{b2}:{c} {v}"));
                    prev_multiline = false;
                }
                BlockM::Meta(k, v) => {
                    let a = self.blanks();
                    let b2 = self.blanks();
                    let c = self.blanks();
                    let kk = self.words(k);
                    self.out.push_str(&format!(">>{a} {kk}{b2}:{c} {v}"));
                    if !self.plain {
                        match self.tape.pick(8) {
                            6 => {
                                self.f.comments += 1;
                                self.out.push_str(" -- meta")
                            }
                            7 => {
                                self.f.odd_spacing += 1;
                                self.out.push_str("   ")
                            }
                            _ => {}
                        }
                    }
                    prev_multiline = false;
                }
                BlockM::StepLine(l) => {
                    self.out.push_str(l);
                    if !self.plain && self.tape.chance(1, 6) {
                        self.f.odd_spacing += 1;
                        self.out.push_str("  ");
                    }
                    prev_multiline = false;
                }
                BlockM::Text(lines) => {
                    for (i, l) in lines.iter().enumerate() {
                        if i > 0 {
                            self.out.push('\n');
                            // a line with the marker but without text (blank, or only a comment) adds nothing
                            if !self.plain && self.tape.chance(1, 6) {
                                self.f.comments += 1;
                                let l = [">", "> ", "> -- nothing here", "> [- c -]", ">\t", "> [- a -] [- b -] "][self.tape.pick(6) as usize];
                                self.out.push_str(l);
                                self.out.push('\n');
                            }
                        }
                        let marker = i == 0 || self.plain || !self.tape.chance(1, 3);
                        if marker {
                            self.out.push('>');
                            if self.plain || !self.tape.chance(1, 5) {
                                self.out.push(' ');
                            }
                        }
                        let before = (self.f.odd_spacing, self.f.comments, self.f.soft_wraps, self.f.escapes);
                        let printed = self.words(l);
                        if before != (self.f.odd_spacing, self.f.comments, self.f.soft_wraps, self.f.escapes) || printed.contains("  ") || printed.contains('\t') {
                            self.f.loose_text_lines += 1;
                        }
                        self.out.push_str(&printed);
                    }
                    prev_multiline = true;
                }
                BlockM::Step(toks) => {
                    self.step(toks);
                    prev_multiline = true;
                }
            }
        }
        // end of file
        if self.plain {
            self.out.push('\n');
        } else {
            match self.tape.pick(5) {
                0 | 1 => self.out.push('\n'),
                2 => {}
                3 => self.out.push_str("\n\n"),
                _ => {
                    self.f.comments += 1;
                    self.out.push_str("\n-- the end")
                }
            }
        }
        // whole-file CRLF as a spelling dimension
        if !self.plain && self.tape.chance(1, 8) && !self.out.contains('\\') {
            self.f.crlf = true;
            self.out = self.out.replace('\n', "\r\n");
        }
        (self.out, self.f)
    }
}

pub fn yaml_quote(s: &str) -> String {
    let mut o = String::from("\"");
    for c in s.chars() {
        match c {
            '"' => o.push_str("\\\""),
            '\\' => o.push_str("\\\\"),
            c => o.push(c),
        }
    }
    o.push('"');
    o
}

pub fn print_recipe(r: &RecipeM, tape: &[u16]) -> (String, Features) {
    Printer::new(tape, r.level == Level::Ext, false).recipe(r)
}

pub fn print_plain(r: &RecipeM) -> String {
    Printer::new(&[], r.level == Level::Ext, true).recipe(r).0
}
