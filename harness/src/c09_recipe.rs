//! C09 (d): ScaledRecipe::convert over generated recipes.

use cooklang::convert::{PhysicalQuantity, System};
use cooklang::quantity::{Number, ScaledQuantity, Value};
use serde::{Deserialize, Serialize};
use serde_json::json;

use crate::c01::EXTENDED;
use crate::c09::UnitView;
use crate::common::*;
use crate::gen_recipe::*;
use crate::pipeline::BUNDLED;
use crate::print::*;
use crate::{vbail, vensure};

#[derive(Debug, Clone, Serialize, Deserialize)]
pub struct Case {
    pub raw: RawRecipe,
    pub factor_bits: Option<u64>,
    pub imperial: bool,
}

fn lookup<'a>(units: &'a UnitView, key: &str) -> Option<&'a (Vec<String>, PhysicalQuantity, f64, f64)> {
    units.iter().find(|u| u.0.iter().any(|k| k == key))
}

fn amount(q: &ScaledQuantity, u: &(Vec<String>, PhysicalQuantity, f64, f64)) -> Option<(f64, f64)> {
    let f = |n: &Number| (n.value() + u.3) * u.2;
    match q.value() {
        Value::Number(n) => Some((f(n), f(n))),
        Value::Range { start, end } => Some((f(start), f(end))),
        Value::Text(_) => None,
    }
}

fn check(c: &Case, units: &UnitView, st: &mut Stats) -> Verdict {
    let m = build(&c.raw, false);
    let (mut src, _) = print_recipe(&m, &c.raw.tape);
    // ingredients that are other recipes (by path or by modifier) carry quantities like any other
    if c.imperial || c.factor_bits.is_some() {
        src = src.replace("\r\n", "\n");
        if !src.ends_with('\n') {
            src.push('\n');
        }
        src.push_str("\nServe with @./sauces/hollandaise{150%g}, @../basics/stock{1-2%cups}, @@pesto{2%tbsp} and @./x/y{some%kg}.\n");
        // timers carry quantities too, whatever their unit (a non-time unit is an analysis error, the output stays)
        src.push_str("\nWait ~{2%l}, ~sugar{2%lb}, ~{1-3%cups} and ~x{500%g}.\n");
        st.class("with recipe-reference ingredients");
    }
    let Some(r) = EXTENDED.parse(&src).into_output() else {
        st.exclude("no output");
        return Ok(());
    };
    let mut s = match c.factor_bits {
        Some(b) => r.scale(f64::from_bits(b), &BUNDLED),
        None => r.default_scale(),
    };
    let system = if c.imperial { System::Imperial } else { System::Metric };
    let before: Vec<ScaledQuantity> = s
        .ingredients
        .iter()
        .filter_map(|i| i.quantity.clone())
        .chain(s.timers.iter().filter_map(|t| t.quantity.clone()))
        .chain(s.inline_quantities.iter().cloned())
        .collect();
    let errs = match guard(|| s.convert(system, &BUNDLED)) {
        Ok(e) => e,
        Err(p) => vbail!("c09.panic.recipe-convert", "ScaledRecipe::convert panicked: {p}; source {src:?}"),
    };
    let after: Vec<ScaledQuantity> = s
        .ingredients
        .iter()
        .filter_map(|i| i.quantity.clone())
        .chain(s.timers.iter().filter_map(|t| t.quantity.clone()))
        .chain(s.inline_quantities.iter().cloned())
        .collect();
    vensure!(before.len() == after.len(), "c09.recipe-quantity-count", "conversion changed the number of quantities; source {src:?}");
    let mut expected_failures = 0;
    let mut converted = 0;
    for (b, a) in before.iter().zip(&after) {
        let convertible = !matches!(b.value(), Value::Text(_)) && b.unit().and_then(|u| lookup(units, u)).is_some();
        if !convertible {
            expected_failures += 1;
            vensure!(
                a == b && serde_json::to_string(a).unwrap() == serde_json::to_string(b).unwrap(),
                "c09.recipe-unconvertible-changed",
                "quantity {b:?} cannot be converted but became {a:?}; source {src:?}"
            );
            continue;
        }
        converted += 1;
        let ub = lookup(units, b.unit().unwrap()).unwrap();
        let Some(ua) = a.unit().and_then(|u| lookup(units, u)) else {
            vbail!("c09.recipe-unit-unknown", "{b:?} converted to {a:?}; source {src:?}");
        };
        vensure!(ua.1 == ub.1, "c09.system-changed-quantity", "{b:?} converted to {a:?}");
        let best = BUNDLED.best_units(ub.1, Some(system));
        vensure!(
            best.iter().any(|x| ua.0.iter().any(|k| k.as_str() == x.symbol())),
            "c09.unit-not-in-best-list",
            "{b:?} converted to {system} gave {a:?}; not one of {:?}; source {src:?}",
            best.iter().map(|x| x.to_string()).collect::<Vec<_>>()
        );
        let (Some((l0, h0)), Some((l1, h1))) = (amount(b, ub), amount(a, ua)) else {
            vbail!("c09.value-kind", "{b:?} -> {a:?}")
        };
        let t = 1e-9 * (1.0 + ub.3 * ub.2);
        vensure!(
            approx_eq(l0, l1, 1e-9, t) && approx_eq(h0, h1, 1e-9, t),
            "c09.system-amount-changed",
            "{b:?} converted to {system} gave {a:?}: {l0:e}..{h0:e} became {l1:e}..{h1:e} base units; source {src:?}"
        );
    }
    vensure!(
        errs.len() == expected_failures,
        "c09.recipe-error-count",
        "{} errors returned for {expected_failures} unconvertible quantities; source {src:?}",
        errs.len()
    );
    if converted > 0 {
        st.nontrivial(&(src.as_str(), c.factor_bits, c.imperial));
    }
    st.class_if(expected_failures > 0, "has-unconvertible-quantity");
    st.sample(|| json!({"source": src, "system": system.to_string(), "converted": converted, "failed": expected_failures}));
    Ok(())
}

pub fn run_recipe_part(run: &mut Run, tier: Tier, units: &UnitView) {
    use proptest::prelude::*;
    run_prop(
        run,
        "recipes",
        "generated Ext recipes (all value kinds, known/unknown units, text values, timers, inline quantities), default-scaled or scaled by a random factor, then ScaledRecipe::convert to Metric/Imperial: one error per unconvertible quantity (text, unitless, unknown unit) which stays identical; every other quantity lands in the system's best-unit list with the amount preserved; non-trivial = at least one quantity converted",
        || {
            (raw_recipe(Some(true)), proptest::option::weighted(0.6, 0.01f64..50.0), any::<bool>()).prop_map(|(raw, f, imperial)| Case { raw, factor_bits: f.map(f64::to_bits), imperial })
        },
        tier.pick(15_000, 1_500_000),
        |c: &Case, st| check(c, units, st),
    );
}

pub fn replay(j: &serde_json::Value, units: &UnitView) -> Verdict {
    check(&case_from(j)?, units, &mut Stats::default())
}
